import sys, time
sys.path.insert(0,'/verif')
from pyvc.world import get_world
from pyvc import contracts, interp, models
from pyvc.contracts import load_sidecars, verify_body, outcome_label
w = get_world()
reg = load_sidecars(w, ["modbus"])
key = sys.argv[1] if len(sys.argv)>1 else "goodwe.modbus.validate_modbus_rtu_response"
c = reg[key]
info = w.func(key); fn = w.resolve(key)
t0=time.time()
res = interp.explore(w, lambda ex: verify_body(ex, c, info, fn), key, reg)
print("paths", len(res), "time %.2f"%(time.time()-t0))
from collections import Counter
print(Counter(outcome_label(r) for r in res))
for r in res:
    if r.outcome=='unsupported': print("UNSUPPORTED", r.error, r.trace)
    for vc in r.vcs:
        if vc.verdict!='discharged':
            print(vc.name, vc.verdict, r.tags, outcome_label(r))
            if vc.model is not None:
                m=vc.model
                print("   ", {str(d): m[d] for d in m.decls() if 'len' in str(d) or str(d).split('!')[0] in ('cmd','offset','value')})
nv=sum(len(r.vcs) for r in res); print("vcs", nv, "discharged", sum(1 for r in res for v in r.vcs if v.verdict=='discharged'))
from pyvc import loops
for k in c.bv_body:
    t0=time.time()
    res = interp.explore(w, lambda ex: loops.verify_loop_body_bv(ex, c, info, fn, k), key+"#bv", reg)
    print("bv lemma paths", len(res), "time %.2f"%(time.time()-t0), [(v.name, v.verdict) for r in res for v in r.vcs], [r.error for r in res if r.error])
