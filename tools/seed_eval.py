#!/usr/bin/env python3
"""Confirm a seeded change and run checks against it.
usage: tools/seed_eval.py <dir with patch.diff demo.py note.txt> <seed id> <property id> [more property ids to run]
Confirms in a scratch copy of /repo (outside /repo and /verif): tests pass with the change, demo fails with it and
passes without it; then runs ./check <prop> quick against the changed copy (GOODWE_REPO) and stores everything under
/verif/seeded/<seed id>/ (patch.diff, demo.py, note.txt, meta.json)."""
import json, os, shutil, subprocess, sys, tempfile, time

src, sid, prop = sys.argv[1], sys.argv[2], sys.argv[3]
props = sys.argv[3:]
VERIF = os.path.dirname(os.path.dirname(os.path.abspath(__file__)))
tmp = tempfile.mkdtemp(prefix="seed_")
meta = {"seed": sid, "breaks_property": prop, "source": "independent sub-agent given only the property text and a scratch worktree"}
try:
    for d in ("goodwe", "tests"):
        shutil.copytree(os.path.join("/repo", d), os.path.join(tmp, d))
    os.makedirs(os.path.join(tmp, "OUT", sid))
    for f in ("patch.diff", "demo.py", "note.txt"):
        shutil.copy(os.path.join(src, f), os.path.join(tmp, "OUT", sid, f))
    env = dict(os.environ, PYTHONDONTWRITEBYTECODE="1")
    def run(cmd, **kw):
        return subprocess.run(cmd, cwd=tmp, capture_output=True, text=True, env=env, **kw)
    clean_demo = run(["/venv/bin/python", f"OUT/{sid}/demo.py"])
    ap = run(["patch", "-p1", "-i", f"OUT/{sid}/patch.diff"])
    meta["patch_applies"] = ap.returncode == 0
    tests = run(["/venv/bin/python", "-m", "pytest", "-q", "-p", "no:cacheprovider", "tests"])
    meta["tests_with_change"] = tests.stdout.strip().splitlines()[-1] if tests.stdout.strip() else tests.stderr[-200:]
    demo = run(["/venv/bin/python", f"OUT/{sid}/demo.py"])
    meta["demo_exit_with_change"] = demo.returncode
    meta["demo_exit_without_change"] = clean_demo.returncode
    meta["demo_output_with_change"] = (demo.stdout + demo.stderr)[-600:]
    meta["confirmed"] = bool(meta["patch_applies"] and " passed" in meta["tests_with_change"] and "failed" not in
                             meta["tests_with_change"] and demo.returncode != 0 and clean_demo.returncode == 0)
    meta["checks"] = {}
    for p in props:
        t0 = time.time()
        r = subprocess.run([os.path.join(VERIF, "check"), p, "quick"], capture_output=True, text=True,
                           env=dict(env, GOODWE_REPO=tmp), cwd=VERIF)
        lines = [l for l in r.stdout.splitlines() if l.startswith(("VIOLATION", "  obligation", "UNDECIDED", "CHECKER", "KNOWN"))]
        meta["checks"][p] = {"exit": r.returncode, "summary": r.stdout.strip().splitlines()[-1] if r.stdout.strip() else "",
                             "lines": [l[:300] for l in lines[:12]], "wall_s": round(time.time() - t0, 1)}
    meta["detected_by"] = [p for p, c in meta["checks"].items() if c["exit"] == 1]
    meta["what_it_needs"] = open(os.path.join(src, "note.txt")).read()[:1500]
    meta["what_was_run"] = "tools/seed_eval.py: scratch copy of /repo/goodwe+tests, patch -p1, pytest tests, demo.py with and without the change, ./check <prop> quick with GOODWE_REPO=<scratch copy>"
    dst = os.path.join(VERIF, "seeded", sid)
    os.makedirs(dst, exist_ok=True)
    for f in ("patch.diff", "demo.py", "note.txt"):
        if os.path.abspath(os.path.join(src, f)) != os.path.abspath(os.path.join(dst, f)):
            shutil.copy(os.path.join(src, f), os.path.join(dst, f))
    json.dump(meta, open(os.path.join(dst, "meta.json"), "w"), indent=1)
    print(sid, "confirmed" if meta["confirmed"] else "NOT-CONFIRMED", "detected_by", meta["detected_by"],
          {p: (c["exit"], c["summary"][-90:]) for p, c in meta["checks"].items()})
finally:
    shutil.rmtree(tmp, ignore_errors=True)
