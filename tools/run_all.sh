#!/bin/bash
# run every claimed check (quick by default) on /repo and summarise; refreshes /verif/evidence
cd "$(dirname "$0")/.."
tier=${1:-quick}
rc=0
for p in $(python3 -c "import json;print(' '.join(c['property_id'] for c in json.load(open('MANIFEST.json'))['checks']))"); do
  out=$(timeout 3000 ./check $p $tier 2>&1); r=$?
  echo "$p rc=$r $(echo "$out" | tail -1)"
  [ $r -ne 0 ] && { echo "$out" | grep -v '^  ' | head -8 | cut -c1-300; rc=1; }
done
exit $rc
