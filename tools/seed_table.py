#!/usr/bin/env python3
"""rewrite section 10 of DESIGN.md (between the markers) from /verif/seeded/*/meta.json"""
import glob, json, os, re
HERE = os.path.dirname(os.path.dirname(os.path.abspath(__file__)))
rows = []
for f in sorted(glob.glob(os.path.join(HERE, "seeded", "*", "meta.json"))):
    m = json.load(open(f))
    sid = m["seed"]
    prop = m["breaks_property"]
    note = " ".join(m.get("what_it_needs", "").split())[:230]
    chk = m["checks"].get(prop, {})
    obs = [re.sub(r".*obligation ", "", l).split(" refuted")[0].split(" (proved")[0] for l in chk.get("lines", []) if "obligation " in l]
    obs = sorted(set(o.strip()[:110] for o in obs))[:3]
    verdict = {1: "VIOLATION", 0: "missed (exit 0)", 2: "undecided (exit 2)", 3: "checker error"}.get(chk.get("exit"), "?")
    rows.append(f"| {sid} | {prop} | {'yes' if m.get('confirmed') else 'NO'} | {verdict} | {'; '.join(obs) or '—'} | {note} |")
table = ("| seed | property | confirmed (tests pass, demo fails with / passes without) | check verdict | obligations that failed | what the change is / needs |\n"
         "|---|---|---|---|---|---|\n" + "\n".join(rows))
p = os.path.join(HERE, "DESIGN.md")
s = open(p).read()
a, b = "<!-- SEED-TABLE-BEGIN -->", "<!-- SEED-TABLE-END -->"
if a in s:
    s = s[:s.index(a) + len(a)] + "\n" + table + "\n" + s[s.index(b):]
    open(p, "w").write(s)
det = sum(1 for r in rows if "| VIOLATION |" in r)
print(len(rows), "seeds,", det, "detected")
