#!/usr/bin/env python3
"""dev helper: run the units of a property whose name contains a substring, sequentially, with timing
usage: PYTHONPATH=/verif:/repo python3-vt tools/run_unit.py C18 ET.read_sensor [max_seconds]"""
import sys, time, importlib, faulthandler
prop, pat = sys.argv[1], sys.argv[2]
limit = int(sys.argv[3]) if len(sys.argv) > 3 else 120
from pyvc import units, contracts
from pyvc.world import get_world
d = importlib.import_module(f"props.{prop}")
w = get_world(); contracts.load_sidecars(w, d.SIDECARS)
for spec in d.units("quick"):
    name = str(spec[2:6])
    if pat not in name:
        continue
    faulthandler.dump_traceback_later(limit, exit=True)
    t = time.time()
    r = units._worker(spec)
    faulthandler.cancel_dump_traceback_later()
    bad = [(v["name"], v["verdict"], v.get("detail")) for v in r.get("vcs", []) if v["verdict"] != "discharged"]
    print(name, "wall=%.1f" % (time.time() - t), "paths", r.get("paths"), "vcs", len(r.get("vcs", [])),
          "outcomes", r.get("outcomes"), "unsupported", r.get("unsupported", [])[:3], "err", (r.get("error") or "")[-1500:])
    for b in bad[:8]:
        print("   ", b)
