#!/bin/bash
# usage: tools/mutant_try.sh "<python expr editing string s of a file>" file prop...
# applies an edit to a scratch copy of /repo/goodwe, runs the repo tests there and the given checks against it
rm -rf /tmp/mut && mkdir -p /tmp/mut && cp -r /repo/goodwe /repo/tests /tmp/mut/ 
python3 - "$1" "$2" <<'PY'
import sys
edit, f = sys.argv[1], sys.argv[2]
p = '/tmp/mut/goodwe/' + f
s = open(p).read()
old, new = edit.split(' ==> ')
assert old in s, "pattern not found"
open(p, 'w').write(s.replace(old, new, 1))
PY
shift; shift
(cd /tmp/mut && /venv/bin/python -m pytest -q -p no:cacheprovider 2>&1 | tail -1)
for p in "$@"; do
  out=$(GOODWE_REPO=/tmp/mut timeout 1500 /verif/check $p quick 2>&1); rc=$?
  echo "$p rc=$rc $(echo "$out" | tail -1)"
  echo "$out" | grep "obligation\|UNDEC\|CHECKER" | cut -c1-230 | sort | uniq -c | sort -rn | head -6
done
