#!/usr/bin/env python3
"""regenerate /verif/MANIFEST.json from the table below (kept in one place so it stays valid)"""
import json, os
HERE = os.path.dirname(os.path.dirname(os.path.abspath(__file__)))
props = [json.loads(l) for l in open(os.path.join(HERE, "properties.jsonl"))]

TECH = "contract-based deductive verification: sidecar contracts on the real functions, VCs generated from /repo's ast by the pyvc executor, discharged by z3 (cvc5 on unknown)"
CLAIMED = {
 "C01": dict(text="accept=>well-formed and raises-only clauses of the three validators proved for all byte strings of all lengths (CRC/sum loops by invariant, CRC step by a bit-vector lemma against the bitwise definition)",
             note="trusted: executor pyvc, z3/cvc5, CPython semantics of the subset (differentially tested). Also: every command class built by its real constructor carries a validator that accepts only answers to the operation its arguments denote (binding units), and the receive callbacks deliver only data that validator accepted (callback segments of the transport).",
             ref="4/C01"),
 "C02": dict(text="well-formed=>accept (and well-formed frames never raise) proved for all payloads/lengths for RTU, TCP and AA55 validators",
             note="same trusted base as C01; the binding units state the converse per command class (a well-formed answer to this very request is accepted), the response-construction units that the payload is handed on unchanged", ref="4/C02"),
 "C03": dict(text="post-conditions 'decodes back to the arguments' proved for the 4 Modbus encoders, 9 command constructors, AA55 checksum, _next_tx step (inductive invariant for arbitrarily long histories) and request_bytes",
             note="same trusted base as C01; hex formatting modelled on 0 <= x < 16**W only (out-of-range forks: negative -> ValueError as in CPython, too wide -> undecided); 'changes with every transmission' also in the send_request segments of the transport: every transmission sends the result of a request_bytes() call made for it (T4, T5)", ref="4/C03"),
}
CLAIMED.update({
 "C11": dict(text="for every row of every sensor/setting table of ET/DT/ES: read() on any payload of any length and any block start raises nothing but ValueError (symbolic execution of the real decoders); decode_day_of_week/decode_months total by exhaustive native evaluation of their whole domains",
             note="lifting: _map_response's own contract (every id present, undecodable -> None; loop by invariant) and the bulk settings read of ET/ES (every setting id reported, only a transport failure may end it); assumptions A4 (datetime/struct), T1-T3", ref="4/C11"),
 "C12": dict(text="for every table row: byte position = documented address mapping, every read stays inside the row's own registers, value = reference decoder of exactly those bytes, for all payloads, lengths and block starts",
             note="floats in decoders are uninterpreted functions (A5); reference decoders are sidecar text written from the class docstrings", ref="4/C12"),
 "C13": dict(text="relational post-conditions between the real rows over one symbolic response: labels = lookup(code), bitmaps = set bits, sums/products/formulas; 4 EnumBitmap22 rows are a known finding",
             note="A5; refutations resting on uninterpreted operators are confirmed by native search before being reported", ref="4/C13"),
 "C16": dict(text="per row of the ET/DT sensor tables: read_value on exactly ceil(size_/2) registers stays inside them and equals the bulk read (same term); NotImplementedError rows are a known finding",
             note="plus API-level units over the register-file model: read_sensor(id) against read_runtime_data()[id] for every listed id, and histories in which the capabilities change between a single and a bulk read (lookup uses the definition the bulk read reports)", ref="4/C16"),
 "C20": dict(text="frame conditions on every table row: decoding writes to no pre-existing object and never returns a shared definition (executor write log); eco/schedule rows are a known finding",
             note="F3/F4: every read-only API call modifies only state owned by the object (write log against the objects reachable from module globals and class attributes); the transport callbacks run with the process-wide Modbus/TCP counter havocked (what they do must not depend on it)", ref="4/C20"),
})
CLAIMED.update({
 "C14": dict(text="call-site precondition of Inverter._map_response on every path of the read_runtime_data exploration (all invariant states x refusal sets): the read footprint of every row (from symbolic execution of its real read) lies inside the fetched window; ET MPPT apparent_power2/3 are a known finding",
             note="transport under assumed contract (full-length answers); finite space of (block, row) pairs enumerated completely", ref="4/C14"),
 "C15": dict(text="object invariant of ET/DT (capability flags agree with sensor tuples) established by read_device_info on all paths (model predicates and rated power symbolic) and preserved by read_runtime_data; from every invariant state and every refusal set of the optional blocks: keys == sensors() on return and success by the second call",
             note="transport and _map_response under contract; transient failures outside the quantifier; mandatory blocks (running data, basic meter) never refused", ref="4/C15"),
})
CLAIMED.update({
 "C17": dict(text="per settings row of ET/DT (UDP and TCP) and the eco groups/switches of ES: write_setting(id, v) against the assumed register-file inverter, for all prior contents and all v: exactly one write, at exactly the row's registers, carrying encode_value(v), other half of a shared register kept, read_setting returns v; float-valued classes: encode/decode inverse by exhaustive native evaluation of all 65536 words",
             note="E1 register-file model is an assumption (it is not code); the operation is decoded from the request bytes; known finding: all-ones sentinel of Integer/Long", ref="4/C17"),
 "C18": dict(text="every read-only API method of ET/DT/ES from every settings variant, every id, every transport outcome (answer, rejection, failure): the ghost request log, classified by an independent decoder of the request bytes, holds no write; setters with out-of-range / unknown arguments (symbolic integers) transmit no write and raise ValueError where documented; loops over settings by invariant",
             note="transport under assumed contract; connect/discover/search_inverters are covered by the entry-point units of C05", ref="4/C18"),
 "C19": dict(text="set_operation_mode(m, p, s) then get_operation_mode() == m for every offered mode, eco v1/v2, 745 scaling, ET and ES, for all p, s and all decodable prior group contents, against the assumed register-file inverter; requested power/SoC in group 1 and other groups off; export limit / DoD round trips; encoder lemma exhaustively on the whole grid natively; ECO with a 24/7 prior group is a known finding",
             note="E1/E2 assumptions (inverter model, ES AA55 command semantics)", ref="4/C19"),
})
SM = "transport state machine verified as a monitor: every callback and every await-free stretch of send_request/execute/close is a segment executed from an arbitrary state satisfying the object invariant (I1 binding, I2 pending=>timeout armed, I4 retry within budget, I5 fragment state, I6 open transports); the base case is proved too: the real __init__ of both protocol classes, run on arbitrary (timeout, retries, port, comm_addr), establishes the invariant with the empty ghost, keeps timeout/retries as given, creates no asyncio object, and leaves no mutable container reachable from a class attribute or shared by two objects; awaits havoc what callbacks may change and re-assume the invariant; recursion by contract. "
SMNOTE = "trusted: ghost model of asyncio (pyvc/aio_env.py, T4), atomic segments (T5), A1 (data only after a transmission), single requesting task for counting (several callers: lock discipline only); real-time spacing and OS sockets are not decided by the proofs. thorough adds a BOUNDED stand-in that is not counted as proved: all fault scripts of length retries+1 (retries 0..4, 10-letter alphabet, 444 440 histories of three requests) on the real classes over a virtual-clock event loop, judged against the statements, which also covers the real-time clauses"
CLAIMED.update({
 "C04": dict(text=SM + "C04: transmissions per request <= retries - _retry + 1 on every exit, callbacks never transmit nor refill the budget, a pending future always has a timeout armed, timeouts use self.timeout / the literal 5", note=SMNOTE, ref="4/C04"),
 "C05": dict(text=SM + "C05: _retry == 0 on every exit of send_request (and reset exactly when the answer is delivered); connect/discover/search_inverters and the inverter constructors hand the configured (timeout, retries) to every protocol object that transmits (symbolic timeout/retries)", note=SMNOTE + "; stale-timer ordering not decided", ref="4/C05"),
 "C06": dict(text=SM + "C06: transmissions only while the lock is held by the requesting task, lock free on every exit and before re-entering, command/future binding untouched by callbacks, a result only reaches the future of the command in flight", note=SMNOTE + "; the 'own answer' clause holds under the property's own proviso (answers arrive at most once and in time)", ref="4/C06"),
 "C07": dict(text=SM + "C07: Partial(len, expected) contract of the three validators (both directions) + callbacks: fragment held with the missing count, timeout re-armed, future untouched; composition only of the held fragment with a datagram of exactly the missing length and the validator sees exactly that concatenation; every transmission clears the fragment", note=SMNOTE, ref="4/C07"),
 "C08": dict(text=SM + "C08: validators raise RequestRejectedException(reason(code)) for every exception frame and all 256 codes (literal texts for 1,2,3, UNKNOWN outside the standard codes); callbacks forward the same exception to a pending future without retransmission; no handler between the future and the public call catches it (ground); consumers compare with the constant", note=SMNOTE, ref="4/C08"),
 "C09": dict(text=SM + "C09: callbacks raise nothing; send_request raises only rejection/OSError; execute only RequestFailed/Rejected/MaxRetries; _read_from_socket counter arithmetic (success 0, failure +1 and reported, rejection unchanged); every public read-only coroutine and connect/discover/search_inverters raise only InverterError (+documented ValueError) under every transport outcome; two getters are a known finding", note=SMNOTE, ref="4/C09"),
 "C10": dict(text=SM + "C10: open transports are at most the current one (I6) in every segment; without keep-alive nothing is open after send_request(UDP)/execute; nothing open after close()", note=SMNOTE + "; OS-level descriptors and loop ordering (A2) not decided", ref="4/C10"),
})
REASONS = {}
checks = []
for p in props:
    pid = p["id"]
    if pid in CLAIMED:
        c = CLAIMED[pid]
        checks.append({
            "property_id": pid, "quick_cmd": f"./check {pid} quick", "thorough_cmd": f"./check {pid} thorough",
            "evidence_file": f"evidence/{pid}.json", "replay_cmd_template": "./check replay {path}", "engine": "pyvc",
            "level_claimed": {"category": "proof", "text": c["text"], "design_ref": "DESIGN.md section " + c["ref"]},
            "level_note": c["note"], "technique": TECH})
na = [{"property_id": p["id"], "reason": REASONS.get(p["id"], "check not built yet (work in progress; see DESIGN.md section 7)")}
      for p in props if p["id"] not in CLAIMED]
m = {"version": 1, "setup_cmd": "./check setup",
     "hooks": {"guard": "GOODWE_VERIF", "enable": "no hooks are needed: contracts are sidecar files under /verif/contracts, nothing in /repo is instrumented",
               "baseline_off_cmd": "cd /repo && /venv/bin/python -m pytest -ra -q -p no:cacheprovider --timeout=900 --continue-on-collection-errors",
               "source_commits": [], "add_only": True},
     "engines": [{"name": "pyvc", "path": "pyvc/", "serves_properties": sorted(CLAIMED),
                  "kind_free_text": "AST-level mixed concrete/symbolic executor + sidecar contracts + VC discharge by z3/cvc5 (contract-based deductive verification of the real source)"}],
     "checks": checks, "not_applicable": na, "notes": "see DESIGN.md"}
json.dump(m, open(os.path.join(HERE, "MANIFEST.json"), "w"), indent=1)
print("claimed", sorted(CLAIMED), "not_applicable", len(na))
