#!/bin/bash
# evaluate every seeded change found under /tmp/wt_*/OUT (or already stored under /verif/seeded) against its property
cd "$(dirname "$0")/.."
for p in ${SEED_PROPS:-C01 C02 C03 C04 C05 C06 C07 C08 C09 C10 C11 C12 C13 C14 C15 C16 C17 C18 C19 C20}; do
  for k in ${SEED_KS:-1 2 3 4 5 6}; do
    d=${p}_$k
    src=/tmp/wt_$p/OUT/$d
    [ -d "$src" ] || src=/tmp/wt2_$p/OUT/$d
    [ -d "$src" ] || src=/tmp/wt3_$p/OUT/$d
    [ -d "$src" ] || src=/verif/seeded/$d
    [ -f "$src/patch.diff" ] || continue
    timeout 1800 tools/seed_eval.py $src $d $p 2>&1 | tail -1 | cut -c1-300
  done
done
