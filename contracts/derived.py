"""C13 — definitions of the derived / label sensors over the raw sensors of the same response.

Every entry: derived id -> (ids of the rows it is defined over, relation(v) -> bool) where v maps ids to the
values the *real* rows decode from one shared symbolic response.  Written from the table comments and the
statement of C13; `fround`/`fmul` are the same uninterpreted float operators the decoders produce (A5), so a
changed operand, sign, scale or formula yields a different term.
"""
from pyvc.spec import *


def nz(x):
    return 0 if x is None else x


def fround(x):
    return round(x)


def grid_direction(p):
    return 2 if p < -90 else (1 if p >= 90 else 0)


# ---- label pairs: '<x>_label' is the table lookup of '<x>' (same table, found by naming convention) ---------------
def label_pairs(rows):
    by_id = {r.id_: r for r in rows}
    out = []
    for r in rows:
        cls = type(r).__name__
        if cls in ("Enum", "EnumH", "EnumL", "Enum2") and r.id_.endswith("_label") and r.id_[:-6] in by_id:
            out.append((r.id_, r.id_[:-6]))
    return out


def label_relation(label, code, labels):
    return label == labels.get(code)


# ---- bitmap pairs ------------------------------------------------------------------------------------------------------
def bitmap4_pairs(rows):
    """EnumBitmap4 row <-> the Long row at the same offset"""
    out = []
    for r in rows:
        if type(r).__name__ == "EnumBitmap4":
            for q in rows:
                if type(q).__name__ == "Long" and q.offset == r.offset:
                    out.append((r.id_, q.id_))
    return out


def bitmap22_triples(rows):
    """EnumBitmap22 row <-> the Integer rows at its high and low word offsets"""
    out = []
    for r in rows:
        if type(r).__name__ == "EnumBitmap22":
            hi = [q for q in rows if type(q).__name__ == "Integer" and q.offset == r.offset]
            lo = [q for q in rows if type(q).__name__ == "Integer" and q.offset == r._offsetL]
            if hi and lo:
                out.append((r.id_, hi[0].id_, lo[0].id_))
    return out


def bitmap_relation(label, code, labels):
    return label == bits_label(code, labels)


def bitmap22_relation(label, hi, lo, labels):
    return label == bits_label(hi * 65536 + lo, labels)


# ---- sums, products, formulas ------------------------------------------------------------------------------------------
def et_ppv(v):
    return v["ppv"] == nz(v["ppv1"]) + nz(v["ppv2"]) + nz(v["ppv3"]) + nz(v["ppv4"])


def et_house(v):
    return v["house_consumption"] == (nz(v["ppv1"]) + nz(v["ppv2"]) + nz(v["ppv3"]) + nz(v["ppv4"])
                                      + v["pbattery1"] - v["active_power"])


def et_grid_in_out(v):
    return v["grid_in_out"] == grid_direction(v["active_power"])


def et_grid_in_out_label(v):
    return v["grid_in_out_label"] == GRID_IN_OUT.get(v["grid_in_out"])


def dt_ppv1(v):
    return v["ppv1"] == fround(fmul(v["vpv1"], v["ipv1"]))


def dt_ppv2(v):
    return v["ppv2"] == fround(fmul(v["vpv2"], v["ipv2"]))


def dt_ppv3(v):
    return v["ppv3"] == fround(fmul(v["vpv3"], v["ipv3"]))


def dt_ppv(v):
    return v["ppv"] == v["ppv1"] + v["ppv2"] + v["ppv3"]


def dt_pgrid1(v):
    return v["pgrid1"] == fround(fmul(v["vgrid1"], v["igrid1"]))


def dt_pgrid2(v):
    return v["pgrid2"] == fround(fmul(v["vgrid2"], v["igrid2"]))


def dt_pgrid3(v):
    return v["pgrid3"] == fround(fmul(v["vgrid3"], v["igrid3"]))


def es_ppv1(v):
    return v["ppv1"] == fround(fmul(v["vpv1"], v["ipv1"]))


def es_ppv2(v):
    return v["ppv2"] == fround(fmul(v["vpv2"], v["ipv2"]))


def es_ppv(v):
    return v["ppv"] == v["ppv1"] + v["ppv2"]


def es_plant_power(v):
    return v["plant_power"] == nz(v["pload"]) + nz(v["pback_up"])


def es_house(v):
    return v["house_consumption"] == v["ppv1"] + v["ppv2"] + v["pbattery1"] - v["pgrid"]


from goodwe.const import GRID_IN_OUT_MODES as GRID_IN_OUT

RELATIONS = {
    "ET._ET__all_sensors": {
        "ppv": (("ppv", "ppv1", "ppv2", "ppv3", "ppv4"), et_ppv),
        "house_consumption": (("house_consumption", "ppv1", "ppv2", "ppv3", "ppv4", "pbattery1", "active_power"),
                              et_house),
        "grid_in_out": (("grid_in_out", "active_power"), et_grid_in_out),
        "grid_in_out_label": (("grid_in_out_label", "grid_in_out"), et_grid_in_out_label),
    },
    "DT._DT__all_sensors": {
        "ppv1": (("ppv1", "vpv1", "ipv1"), dt_ppv1), "ppv2": (("ppv2", "vpv2", "ipv2"), dt_ppv2),
        "ppv3": (("ppv3", "vpv3", "ipv3"), dt_ppv3), "ppv": (("ppv", "ppv1", "ppv2", "ppv3"), dt_ppv),
        "pgrid1": (("pgrid1", "vgrid1", "igrid1"), dt_pgrid1), "pgrid2": (("pgrid2", "vgrid2", "igrid2"), dt_pgrid2),
        "pgrid3": (("pgrid3", "vgrid3", "igrid3"), dt_pgrid3),
    },
    "ES._ES__sensors": {
        "ppv1": (("ppv1", "vpv1", "ipv1"), es_ppv1), "ppv2": (("ppv2", "vpv2", "ipv2"), es_ppv2),
        "ppv": (("ppv", "ppv1", "ppv2"), es_ppv), "plant_power": (("plant_power", "pload", "pback_up"), es_plant_power),
        "house_consumption": (("house_consumption", "ppv1", "ppv2", "pbattery1", "pgrid"), es_house),
    },
}


def all_relations(tname, rows):
    """[(name, ids, kind, extra)] for one table"""
    out = []
    by_id = {r.id_: r for r in rows}
    for lab, code in label_pairs(rows):
        out.append((lab, (lab, code), "label", None))
    for lab, code in bitmap4_pairs(rows):
        out.append((lab, (lab, code), "bitmap4", None))
    for lab, hi, lo in bitmap22_triples(rows):
        out.append((lab, (lab, hi, lo), "bitmap22", None))
    for name, (ids, rel) in RELATIONS.get(tname, {}).items():
        if all(i in by_id for i in ids):
            out.append((name, ids, "formula", rel))
    return out


# ---- native re-evaluation (replay) ----------------------------------------------------------------------------------------
def replay_relation(table, name, payload, first):
    """the solver's witness first; if the refutation rests on an uninterpreted operator (shift, float product) the
    witness bytes need not expose it, so a small native search around it follows (sparse single/double bits, 0xFF
    fills, seeded random words).  Anything found is a real failing input of the real code."""
    import random
    r = _replay_relation(table, name, payload, first)
    if r.get("violates"):
        return r
    from contracts import sensor as cs
    rows = cs.sensor_tables()[table]
    by_id = {x.id_: x for x in rows}
    rels = [x for x in all_relations(table, rows) if x[0] == name]
    offs = [by_id[i].offset for i in rels[0][1] if by_id[i].offset] + [getattr(by_id[i], "_offsetL", 0) or 0
                                                                       for i in rels[0][1]]
    offs = [o for o in offs if o]
    if cs.table_kind(table) == "modbus" and offs:
        first = min(offs)
        n = (max(offs) - first) * 2 + 16
    else:
        n = max(len(payload), 130)
    rnd = random.Random(12345)
    cands = [bytes(n), b"\xff" * n, b"\x00\x01" * (n // 2 + 1), b"\x80\x00" * (n // 2 + 1)]
    for _ in range(400):
        b = bytearray(n)
        for _ in range(rnd.choice((1, 2, 3, 8))):
            b[rnd.randrange(n)] = rnd.choice((1, 2, 4, 8, 16, 32, 64, 128, 255, rnd.randrange(256)))
        cands.append(bytes(b))
    for c in cands:
        r2 = _replay_relation(table, name, c, first)
        if r2.get("violates"):
            r2["payload"] = c.hex()
            r2["found_by"] = "native search around the solver witness"
            return r2
    return r


def _replay_relation(table, name, payload, first):
    from contracts import sensor as cs
    from contracts.sensor_native import make_response
    rows = cs.sensor_tables()[table]
    by_id = {r.id_: r for r in rows}
    kind = cs.table_kind(table)
    rels = [r for r in all_relations(table, rows) if r[0] == name]
    if not rels:
        return {"violates": False, "note": "relation no longer defined"}
    _, ids, rk, rel = rels[0]
    resp = make_response(bytes(payload), kind, first)
    vals = {}
    for i in ids:
        try:
            vals[i] = by_id[i].read(resp)
        except ValueError:
            return {"violates": False, "note": f"{i} undecodable"}
    if rk == "label":
        ok = label_relation(vals[ids[0]], vals[ids[1]], by_id[ids[0]]._labels)
    elif rk == "bitmap4":
        ok = bitmap_relation(vals[ids[0]], vals[ids[1]], by_id[ids[0]]._labels)
    elif rk == "bitmap22":
        ok = bitmap22_relation(vals[ids[0]], vals[ids[1]], vals[ids[2]], by_id[ids[0]]._labels)
    else:
        ok = rel(vals)
    return {"violates": not ok, "values": {k: repr(v)[:80] for k, v in vals.items()}}


def exhaustive_pairs():
    """thorough tier: every label / bitmap pair of every table swept over all 65536 contents of its code word (two-word
    bitmaps: low word x {0, 1, 0x8000, 0xFFFF} high words) on the real rows"""
    from contracts import sensor as cs
    from contracts.sensor_native import make_response
    failures, obligations = [], []
    cases = 0
    for tn, rows in sorted(cs.sensor_tables().items()):
        by_id = {r.id_: r for r in rows}
        kind = cs.table_kind(tn)
        for name, ids, rk, rel in all_relations(tn, rows):
            if rk == "formula":
                continue
            ob = f"C13_sweep_{tn.split('.')[-1].strip('_')}_{name}"
            obligations.append({"name": ob, "detail": f"{tn}/{name}: all 16-bit code words"})
            offs = [by_id[i].offset for i in ids] + [getattr(by_id[ids[0]], "_offsetL", None) or by_id[ids[0]].offset]
            first = min(offs) if kind == "modbus" else 0
            n = ((max(offs) - first) * 2 + 8) if kind == "modbus" else max(offs) + 8
            code = by_id[ids[-1]] if rk != "bitmap22" else by_id[ids[2]]
            pos = (code.offset - first) * 2 if kind == "modbus" else code.offset
            width = 1 if type(code).__name__ in ("Byte", "ByteH", "ByteL") else 2
            highs = (0,) if rk != "bitmap22" else (0, 1, 0x8000, 0xFFFF)
            nfail = 0
            for hi in highs:
                for w in range(65536 if width == 2 else 256):
                    cases += 1
                    b = bytearray(n)
                    if width == 2:
                        b[pos:pos + 2] = w.to_bytes(2, "big")
                    else:
                        b[pos + (1 if type(code).__name__ == "ByteL" else 0)] = w
                    if rk == "bitmap22":
                        hp = (by_id[ids[1]].offset - first) * 2
                        b[hp:hp + 2] = hi.to_bytes(2, "big")
                    if rk == "bitmap4":
                        b[pos:pos + 2] = hi.to_bytes(2, "big")
                        b[pos + 2:pos + 4] = w.to_bytes(2, "big")
                    r = _replay_relation(tn, name, bytes(b), first)
                    if r.get("violates"):
                        nfail += 1
                        if nfail <= 3:
                            failures.append({"obligation": ob, "payload": bytes(b).hex(), "first": first,
                                             "values": r.get("values")})
    return {"cases": cases, "exhaustive": True, "failures": failures, "obligations": obligations}
