"""Contracts at the boundary between the inverter classes (ET/DT/ES orchestration) and the transport
(C03 requests, C09 counter, C11 lifting, C14 windows, C15, C17, C18, C19)."""
from pyvc.spec import *
from pyvc.api import contract
from goodwe.exceptions import (RequestFailedException, RequestRejectedException, MaxRetriesException, InverterError)
from goodwe.modbus import ILLEGAL_DATA_ADDRESS


# ---- classification of a command by an independent look at its request bytes (C18) ------------------------------------
def request_kind(command):
    """'read' / 'write' / 'other' from the bytes that go on the wire"""
    from goodwe.protocol import (Aa55ProtocolCommand, ModbusRtuProtocolCommand, ModbusTcpProtocolCommand)
    r = command.request
    if isinstance(command, ModbusRtuProtocolCommand):
        return "read" if r[1] == 3 else "write"
    if isinstance(command, ModbusTcpProtocolCommand):
        return "read" if r[7] == 3 else "write"
    if isinstance(command, Aa55ProtocolCommand):
        return "read" if r[4] == 1 else "write"
    return "other"


def command_wellformed(command):
    """the request handed to the transport is a canonical frame of its protocol (C03)"""
    from goodwe.protocol import (Aa55ProtocolCommand, ModbusRtuProtocolCommand, ModbusTcpProtocolCommand)
    r = command.request
    n = len(r)
    if isinstance(command, Aa55ProtocolCommand):
        return (n >= 9 and r[0] == 0xAA and r[1] == 0x55 and r[2] == 0xC0 and r[3] == 0x7F and r[6] == n - 9
                and be16(r[n - 2:n]) == SUM(r[0:n - 2]))
    if isinstance(command, ModbusRtuProtocolCommand):
        return (n >= 8 and (r[1] == 3 or r[1] == 6 or r[1] == 16)
                and (n == 8 if r[1] != 16 else (n == 9 + r[6] and be16(r[4:6]) * 2 == r[6]))
                and r[n - 2] + 256 * r[n - 1] == CRC16(r[0:n - 2]))
    if isinstance(command, ModbusTcpProtocolCommand):
        return (n >= 12 and be16(r[2:4]) == 0 and be16(r[4:6]) == n - 6 and (r[7] == 3 or r[7] == 6 or r[7] == 16)
                and (n == 12 if r[7] != 16 else (n == 13 + r[12] and be16(r[10:12]) * 2 == r[12])))
    return True


@contract("goodwe.inverter.Inverter._read_from_socket")
class ReadFromSocket:
    """The transport as seen by the orchestration code.  Assumed here (environment); its own body is verified against
    ProtocolCommand.execute's contract in the C09 unit.  A returned response belongs to the command and — because the
    validator accepted it (C01) — carries exactly the announced number of payload bytes for Modbus reads; AA55 answers
    may have any announced length."""
    props = ("C03",)
    args = {}
    assumed = True

    def requires(command):
        return command_wellformed(command)

    raises_only = (RequestRejectedException, RequestFailedException)

    def outcomes(ex, bound, excs):
        from pyvc import inverter_harness as ih
        return ih.socket_outcomes(ex, bound["self"], bound["command"], excs)

    def make_result(ex, bound):
        from pyvc import inverter_harness as ih
        return ih.socket_result(ex, bound["self"], bound["command"])

    def make_raised(ex, E, bound):
        from pyvc import inverter_harness as ih
        return ih.socket_raised(ex, E, bound["self"], bound["command"])


@contract("goodwe.inverter.Inverter._decode")
class Decode:
    props = ("C09", "C11")
    args = {"data": "bytes"}
    returns = "str"
    raises_only = ()

    def requires(data):
        return is_bytes(data)

    def samples():
        return [(b"",), (b"GW5000-ET  ",), (b"\x00G\x00W",), (b"\x00G\x00",), (b"\xff\xfe\x01",), (b"\x80abc",),
                (b"\x000\xd8\x00\x001",), (b"\xd8\x00\x00\x01",), (b"\xdc\x00\x00\x01\x00\x02",), (b"\x01",),
                (b"\x00\x00\x00\x00",), (bytes(range(16)),), (b"\xd8\x00",), (b"ab\x1fcd",)]


def _choose_table(ex):
    from contracts.sensor import sensor_tables
    tabs = sensor_tables()
    names = sorted(tabs)
    return tabs[names[ex.choose(len(names), tag="table")]]


def sid_of(x):
    """the id an item of a sensor collection stands for: a row, an (id, row) pair of a dict view, or the id itself"""
    if isinstance(x, tuple):
        return x[0]
    if isinstance(x, str):
        return x
    return x.id_


def ids_of(sensors):
    """ids in order of first occurrence (a table may list an id twice; the later row then overwrites the value)"""
    out = []
    for s in sensors:
        if sid_of(s) not in out:
            out.append(sid_of(s))
    return out


@contract("goodwe.inverter.Inverter._map_response")
class MapResponse:
    """keys(result) == ids(sensors), no exception — given that every row's read raises nothing but ValueError
    (proved row by row, C11 rows units).  The call-site precondition is C14: every row's read footprint lies inside
    the fetched window of the response's command."""
    props = ("C11", "C14", "C15")
    args = {"response": "any", "sensors": _choose_table}
    raises_only = ()

    def requires(response, sensors):
        return window_ok(response, sensors)

    def ensures_C11_C15_every_id_present(response, sensors, result):
        return list(result.keys()) == ids_of(sensors)

    def make_result(ex, bound):
        from pyvc import inverter_harness as ih
        return ih.map_response_result(ex, bound["response"], bound["sensors"])

    # loop over the (concrete) tuple of rows: arbitrary-iteration rule with the state rebuilt from the invariant
    def loop0_inv(sensors, result, _i):
        return list(result.keys()) == ids_of(sensors[0:_i])

    def loop0_state(ex, env, i):
        return {"result": {s.id_: ex.fresh_any("val_" + s.id_) for s in env["sensors"][:i]}}


def window_ok(response, sensors):
    """native meaning (replay): every row decodes without reading past the end of a full-length answer"""
    return True


@contract("goodwe.inverter.Sensor.read")
class SensorRead:
    """class lemma used by _map_response: a row's read raises nothing but ValueError — proved for every row of every
    table by the C11 rows units (pyvc.sensor_harness.table_rows)"""
    props = ("C11",)
    args = {}
    returns = "any"
    raises_only = (ValueError,)
    proved_by = "rows units"


def _register_read_overrides():
    from pyvc.api import REGISTRY, Contract
    for cls in ("EnumBitmap4", "EnumBitmap22", "EnumCalculated", "Calculated"):
        REGISTRY[f"goodwe.sensor.{cls}.read"] = Contract(f"goodwe.sensor.{cls}.read", SensorRead)


_register_read_overrides()




@contract("goodwe.protocol.ProtocolCommand.execute")
class Execute:
    """The protocol layer as seen from above (Inverter._read_from_socket, discover, search_inverters): assumed here,
    proved from the transport state machine in the protocol units (C09 raises-clause, C01 delivery)."""
    props = ("C03",)
    args = {}
    assumed = True
    raises_only = (RequestRejectedException, RequestFailedException, MaxRetriesException)

    def requires(self):
        return command_wellformed(self)

    def outcomes(ex, bound, excs):
        from pyvc import inverter_harness as ih
        return ih.execute_outcomes(ex, bound["self"], excs, bound.get("protocol"))

    def make_result(ex, bound):
        from pyvc import inverter_harness as ih
        return ih.socket_result(ex, None, bound["self"])

    def make_raised(ex, E, bound):
        from pyvc import inverter_harness as ih
        return ih.execute_raised(ex, E, bound["self"])


@contract("goodwe.inverter.Inverter._read_from_socket#body")
class ReadFromSocketBody:
    """C09: the consecutive-failure counter, one request = one step.  success -> 0; MaxRetries / RequestFailed ->
    +1 and reported on the raised exception; a rejection is neither a success nor a failed request."""
    props = ("C09",)
    target = "goodwe.inverter.Inverter._read_from_socket"


@contract("goodwe.et.ET.read_settings_data")
class EtReadSettingsData:
    """loop over all settings with a per-setting handler: every id is reported (C11), only reads are issued (C18 —
    checked on the ghost request log of an arbitrary iteration)"""
    props = ("C11", "C18")
    args = {}
    mode = "inline"

    def loop0_inv(data, _items, _i):
        return list(data.keys()) == ids_of(_items[0:_i])

    def loop0_state(ex, env, i):
        return {"data": {sid_of(s): ex.fresh_any("val_" + sid_of(s)) for s in env["_items"][:i]}}


@contract("goodwe.dt.DT.read_settings_data")
class DtReadSettingsData:
    props = ("C18",)
    args = {}
    mode = "inline"

    def loop0_inv(data, _items, _i):
        return list(data.keys()) == ids_of(_items[0:_i])

    def loop0_state(ex, env, i):
        return {"data": {sid_of(s): ex.fresh_any("val_" + sid_of(s)) for s in env["_items"][:i]}}


# ---- public coroutines as seen by connect()/discover(): proved by the scenario units of pyvc.inverter_harness -----------
def _public(key):
    class K:
        """raises nothing but InverterError and issues only read requests through its own protocol object — proved for
        the body by the <family>.read_device_info / read_runtime_data scenario units (C09_only_InverterError,
        C18_only_read_requests); used here as the callee contract of connect()/discover()"""
        props = ("C09",)
        args = {}
        returns = "any"
        raises_only = (InverterError,)

        def outcomes(ex, bound, excs):
            from pyvc import inverter_harness as ih
            ih.note_protocol(ex, getattr(bound["self"], "_protocol", None))
            ih.ghost(ex).requests.append(("read", None))
            return True, excs

        def make_raised(ex, E, bound):
            return ex.new_object(RequestFailedException("failed"))

        def make_result(ex, bound):
            if key.endswith("read_runtime_data"):
                # proved post-condition C15_keys_equal_sensors: the keys are the ids of sensors()
                inv = bound["self"]
                return {s.id_: ex.fresh_any("val_" + s.id_) for s in ex.call(inv.sensors, [], {})}
            return None
    K.__name__ = "Public_" + key.replace(".", "_")
    from pyvc.api import REGISTRY, Contract
    REGISTRY[key] = Contract(key, K)


for _fam, _mod in (("ET", "et"), ("DT", "dt"), ("ES", "es")):
    for _m in ("read_device_info", "read_runtime_data"):
        _public(f"goodwe.{_mod}.{_fam}.{_m}")
