"""Native exhaustive obligations for C17: encode/decode are inverse on the whole 16-bit domain of every 1- and 2-byte
setting class that is used in a settings table (real functions, all 65536 raw words)."""
from contracts import sensor as cs
from contracts.sensor_native import make_response


def exhaustive_roundtrips():
    seen = {}
    for tn, rows in sorted(cs.sensor_tables().items()):
        if "settings" not in tn:
            continue
        for s in rows:
            cls = type(s).__name__
            if cls in ("Voltage", "Current", "CurrentS", "Decimal", "Integer", "IntegerS", "ByteH", "ByteL"):
                key = (cls, getattr(s, "scale", None))
                seen.setdefault(key, (tn, s))
    failures = []
    obligations = []
    cases = 0
    for (cls, scale), (tn, s) in sorted(seen.items(), key=str):
        name = f"C17_roundtrip_{cls}" + (f"_scale{scale}" if scale else "")
        n = 0
        for w in range(65536):
            raw = bytes([w >> 8, w & 0xFF])
            n += 1
            try:
                v = s.read_value(make_response(raw, "plain", 0))
            except Exception as e:      # noqa
                failures.append({"obligation": name, "raw": raw.hex(), "error": f"read_value raised {e!r}"})
                continue
            if v is None:
                continue
            try:
                enc = s.encode_value(v, raw) if cls in ("ByteH", "ByteL") else s.encode_value(v)
            except Exception as e:      # noqa
                failures.append({"obligation": name, "raw": raw.hex(), "value": repr(v),
                                 "error": f"encode_value raised {e!r}"})
                continue
            try:
                back = s.read_value(make_response(bytes(enc), "plain", 0))
            except Exception as e:      # noqa
                back = e
            if back != v or len(enc) != 2:
                failures.append({"obligation": name, "raw": raw.hex(), "value": repr(v), "encoded": bytes(enc).hex(),
                                 "reads_back": repr(back), "table": tn, "id": s.id_})
        cases += n
        obligations.append({"name": name, "cases": n, "detail": f"{tn}/{s.id_}: read_value(encode_value(read_value(w))) == read_value(w) for all 16-bit w"})
    # keep the failure list small but exact about how many there are
    counts = {}
    for f in failures:
        counts[f["obligation"]] = counts.get(f["obligation"], 0) + 1
    kept, per = [], {}
    for f in failures:
        per[f["obligation"]] = per.get(f["obligation"], 0) + 1
        if per[f["obligation"]] <= 5:
            f["failing_words_total"] = counts[f["obligation"]]
            kept.append(f)
    return {"cases": cases, "exhaustive": True, "failures": kept, "obligations": obligations}


def exhaustive_eco_encoders():
    """C19 encoder lemma on the whole grid: every (prior schedule type, is745, power 1..100, soc 0..100) through the real
    encode_charge / encode_discharge / read_value / is_eco_*_mode / get_power"""
    from goodwe.sensor import EcoModeV1, EcoModeV2, ScheduleType
    from goodwe.protocol import ProtocolResponse
    failures = []
    cases = 0
    names = ["C19_v2_charge_decodes_back", "C19_v2_discharge_decodes_back", "C19_v1_charge_decodes_back",
             "C19_v1_discharge_decodes_back", "C19_set_schedule_type_leaves_an_eco_type"]

    def fail(name, **kw):
        if sum(1 for f in failures if f["obligation"] == name) < 5:
            failures.append(dict(obligation=name, **kw))

    for prior in list(ScheduleType):
        for is745 in (False, True):
            e = EcoModeV2("eco_mode_1", 47547, "x")
            e.schedule_type = prior
            e.set_schedule_type(ScheduleType.ECO_MODE, is745)
            cases += 1
            if e.schedule_type not in (ScheduleType.ECO_MODE, ScheduleType.ECO_MODE_745):
                fail(names[4], prior=prior.name, is745=is745, got=str(e.schedule_type))
                continue
            t = e.schedule_type
            for p in range(1, 101):
                for soc in range(0, 101):
                    cases += 1
                    e.schedule_type = t
                    raw = e.encode_charge(p, soc)
                    d = EcoModeV2("eco_mode_1", 47547, "x")
                    try:
                        d.read_value(ProtocolResponse(raw, None))
                        ok = d.is_eco_charge_mode() and not d.is_eco_discharge_mode() and d.get_power() == -p \
                            and d.soc == soc and len(raw) == 12
                    except Exception as ex:      # noqa
                        ok = False
                    if not ok:
                        fail(names[0], prior=prior.name, is745=is745, power=p, soc=soc, raw=raw.hex())
                e.schedule_type = t
                raw = e.encode_discharge(p)
                d = EcoModeV2("eco_mode_1", 47547, "x")
                cases += 1
                try:
                    d.read_value(ProtocolResponse(raw, None))
                    ok = d.is_eco_discharge_mode() and not d.is_eco_charge_mode() and d.get_power() == p and len(raw) == 12
                except Exception:      # noqa
                    ok = False
                if not ok:
                    fail(names[1], prior=prior.name, is745=is745, power=p, raw=raw.hex())
    v1 = EcoModeV1("eco_mode_1", 47515, "x")
    for p in range(1, 101):
        for kind, raw in (("charge", v1.encode_charge(p, 100)), ("discharge", v1.encode_discharge(p))):
            cases += 1
            d = EcoModeV1("eco_mode_1", 47515, "x")
            try:
                d.read_value(ProtocolResponse(raw, None))
                ok = (d.is_eco_charge_mode() and d.get_power() == -p) if kind == "charge" else \
                    (d.is_eco_discharge_mode() and d.get_power() == p)
                ok = ok and len(raw) == 8
            except Exception:      # noqa
                ok = False
            if not ok:
                fail(names[2] if kind == "charge" else names[3], power=p, raw=raw.hex())
    return {"cases": cases, "exhaustive": True, "failures": failures,
            "obligations": [{"name": n, "cases": cases, "detail": "real encoders/decoders over the whole parameter grid"}
                            for n in names]}
