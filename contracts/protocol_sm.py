"""Contracts of the transport state machine of goodwe/protocol.py used modularly by the segment proofs
(pyvc.protocol_harness): the recursive call of send_request and send_request as seen from execute."""
import asyncio

from pyvc.api import contract
from goodwe.exceptions import RequestRejectedException, MaxRetriesException


def _send_request_contract(key):
    class K:
        """requires: object invariant, lock not held by the caller, variant retries - _retry strictly smaller than
        at the caller's entry.  ensures (every exit): _retry == 0, at most retries - _retry + 1 transmissions, lock
        released, invariant; returns a finished future (validated answer or MaxRetriesException) or raises
        RequestRejectedException / OSError.  These are exactly the exit obligations proved for the body in
        send_request_segment."""
        props = ("C04", "C05", "C06")
        args = {}
        returns = "any"
        raises_only = (RequestRejectedException, OSError)

        def outcomes(ex, bound, excs):
            from pyvc import protocol_harness as ph
            ph.apply_send_request_contract(ex, bound)
            return True, excs

        def make_result(ex, bound):
            from pyvc import protocol_harness as ph
            return ph.send_request_result(ex, bound)

        def make_raised(ex, E, bound):
            from pyvc import protocol_harness as ph
            return ph.send_request_raised(ex, E, bound)
    K.__name__ = "SendRequest_" + key.split(".")[-2]
    from pyvc.api import REGISTRY, Contract
    REGISTRY[key] = Contract(key, K)


_send_request_contract("goodwe.protocol.UdpInverterProtocol.send_request")
_send_request_contract("goodwe.protocol.TcpInverterProtocol.send_request")
