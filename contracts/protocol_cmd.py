"""Contracts for the command classes of goodwe/protocol.py (C01, C02, C03, C07, C12)."""
import ast
import glob
import os

from pyvc.spec import *
from pyvc.api import contract
from goodwe.exceptions import PartialResponseException, RequestRejectedException


def aa55_response_types():
    """every response-type literal handed to an AA55 command constructor anywhere in the tree being checked"""
    import goodwe
    found = {""}
    for path in glob.glob(os.path.join(os.path.dirname(goodwe.__file__), "*.py")):
        tree = ast.parse(open(path).read())
        for n in ast.walk(tree):
            if isinstance(n, ast.Call) and len(n.args) >= 2 and isinstance(n.args[1], ast.Constant) \
                    and isinstance(n.args[1].value, str) and len(n.args[1].value) == 4:
                try:
                    int(n.args[1].value, 16)
                except ValueError:
                    continue
                found.add(n.args[1].value)
    return sorted(found)


def wf_aa55(B, response_type):
    """B is a well-formed AA55 answer of the given response type (C01 statement)"""
    n = len(B)
    return (n >= 9 and n == B[6] + 9
            and (response_type == "" or be16(B[4:6]) == int(response_type, 16))
            and SUM(B[0:n - 2]) % 65536 == be16(B[n - 2:n]))


def fragment_aa55(B):
    return len(B) >= 9 and len(B) < B[6] + 9


def _choose_response_type(ex):
    types = aa55_response_types()
    return types[ex.choose(len(types), tag="response_type")]


def _fix_sum(data):
    """candidate repairs of a solver witness: real checksum, optionally with the payload refilled (the solver's
    model of SUM is not tied to the byte values it picked)"""
    out = []
    if len(data) >= 9:
        for fill in (None, 0xFF, 0x80, 0x00):
            d = bytearray(data)
            if fill is not None:
                for i in range(7, len(d) - 2):
                    d[i] = fill
            s = SUM(bytes(d[:-2])) % 65536
            d[-2] = s >> 8
            d[-1] = s & 0xFF
            out.append(bytes(d))
    return out


@contract("goodwe.protocol.Aa55ProtocolCommand._checksum")
class Aa55Checksum:
    props = ("C03",)
    args = {"data": "bytes"}
    returns = "bytes"
    pure = True
    raises_only = (OverflowError,)

    def ensures_C03_sum(data, result):
        return len(result) == 2 and be16(result) == SUM(data)

    def raises_OverflowError__C03_only_when_sum_exceeds_16_bits(data, raised):
        return SUM(data) > 0xFFFF

    def loop0_inv(data, checksum, _i):
        return checksum == SUM(data[0:_i])

    def samples():
        return [(b"",), (bytes.fromhex("AA55C07F010200"),), (b"\xff" * 100,), (b"\xff" * 300,)]


@contract("goodwe.protocol.Aa55ProtocolCommand._validate_aa55_response")
class ValidateAa55:
    props = ("C01",)
    args = {"data": "bytes", "response_type": _choose_response_type}
    returns = "bool"
    pure = True
    raises_only = (PartialResponseException,)
    raises_only_name = "C01_C02_C04_C09_raises_only"
    cover = ("True", "False", "PartialResponseException")

    def ensures_C01_accept_implies_wellformed(data, response_type, result):
        return (result is True or result is False) and (not result or wf_aa55(data, response_type))

    def ensures_C02_wellformed_implies_accept(data, response_type, result):
        return result or not wf_aa55(data, response_type)

    def ensures_C07_fragment_is_partial(data, response_type, result):
        return not fragment_aa55(data)

    def raises_PartialResponseException__C07_fragment(data, response_type, raised):
        return (len(data) >= 9 and raised.length == len(data) and raised.expected == data[6] + 9
                and raised.expected > len(data))

    def raises_PartialResponseException__C02_not_a_complete_frame(data, response_type, raised):
        return not wf_aa55(data, response_type)

    def loop0_inv(data, checksum, _i):
        return checksum == SUM(data[0:_i])

    def repair(args):
        return [dict(args, data=d) for d in _fix_sum(args["data"])]

    def samples():
        body = bytes.fromhex("AA557FC0018204") + b"\x01\x02\x03\x04"
        f = body + (sum(body) % 65536).to_bytes(2, "big")
        big = bytes.fromhex("AA557FC0018682") + b"\xff" * 130
        g = big + (sum(big) % 65536).to_bytes(2, "big")
        out = []
        for fr, rt in ((f, "0182"), (f, ""), (f, "0186"), (g, "0186"), (f + b"x", "0182")):
            out.append((fr, rt))
            for k in range(0, len(fr), 3):
                out.append((fr[:k], rt))
            out.append((fr[:-1] + bytes([fr[-1] ^ 1]), rt))
        return out


# ---- AA55 request constructors (C03) ---------------------------------------------------------------------------------
from pyvc.api import fresh_instance
from goodwe.protocol import (Aa55ProtocolCommand, Aa55ReadCommand, Aa55WriteCommand, Aa55WriteMultiCommand,
                             ProtocolCommand, ModbusRtuProtocolCommand, ModbusTcpProtocolCommand,
                             ModbusRtuReadCommand, ModbusRtuWriteCommand, ModbusRtuWriteMultiCommand,
                             ModbusTcpReadCommand, ModbusTcpWriteCommand, ModbusTcpWriteMultiCommand)


def aa55_request_ok(r):
    """canonical AA55 request: C07F header, length byte = payload bytes, additive checksum over all that precedes"""
    n = len(r)
    return (n >= 9 and r[0] == 0xAA and r[1] == 0x55 and r[2] == 0xC0 and r[3] == 0x7F
            and r[6] == n - 9 and be16(r[n - 2:n]) == SUM(r[0:n - 2]))


@contract("goodwe.protocol.Aa55ReadCommand.__init__")
class Aa55ReadInit:
    props = ("C03",)
    args = {"self": fresh_instance(Aa55ReadCommand), "offset": "int", "count": "int"}
    returns = "none"
    raises_only = ()

    def requires(offset, count):
        return 0 <= offset <= 0xFFFF and 1 <= count <= 125

    def ensures_C03_frame(self, offset, count):
        r = self.request
        return (aa55_request_ok(r) and len(r) == 12 and r[4] == 0x01 and r[5] == 0x1A
                and be16(r[7:9]) == offset and r[9] == count
                and self.first_address == offset and self.value == count)


@contract("goodwe.protocol.Aa55WriteCommand.__init__")
class Aa55WriteInit:
    props = ("C03",)
    args = {"self": fresh_instance(Aa55WriteCommand), "register": "int", "value": "int"}
    returns = "none"
    raises_only = ()

    def requires(register, value):
        return 0 <= register <= 0xFFFF and -32768 <= value <= 32767

    def ensures_C03_frame(self, register, value):
        r = self.request
        return (aa55_request_ok(r) and len(r) == 14 and r[4] == 0x02 and r[5] == 0x39
                and be16(r[7:9]) == register and r[9] == 1 and be16(r[10:12]) == value % 65536
                and self.first_address == register)


@contract("goodwe.protocol.Aa55WriteMultiCommand.__init__")
class Aa55WriteMultiInit:
    props = ("C03",)
    args = {"self": fresh_instance(Aa55WriteMultiCommand), "offset": "int", "values": "bytes"}
    returns = "none"
    raises_only = ()

    def requires(offset, values):
        return 0 <= offset <= 0xFFFF and len(values) == 8

    def ensures_C03_frame(self, offset, values):
        r = self.request
        return (aa55_request_ok(r) and len(r) == 20 and r[4] == 0x02 and r[5] == 0x39
                and be16(r[7:9]) == offset and r[9] == len(values) and same_bytes(r[10:18], values)
                and self.first_address == offset)


# ---- Modbus command constructors: the request is the encoder's frame, the bookkeeping fields are the arguments ---------
def _modbus_init(cls, write, multi):
    class K:
        props = ("C03",)
        returns = "none"
        raises_only = ()
    return K


@contract("goodwe.protocol.ModbusRtuReadCommand.__init__")
class RtuReadInit:
    props = ("C03",)
    args = {"self": fresh_instance(ModbusRtuReadCommand), "comm_addr": "int", "offset": "int", "count": "int"}
    returns = "none"
    raises_only = ()

    def requires(comm_addr, offset, count):
        return 0 <= comm_addr <= 255 and 0 <= offset <= 0xFFFF and 1 <= count <= 125

    def ensures_C03_frame(self, comm_addr, offset, count):
        r = self.request
        return (len(r) == 8 and r[0] == comm_addr and r[1] == 3 and be16(r[2:4]) == offset and be16(r[4:6]) == count
                and r[6] + 256 * r[7] == CRC16(r[0:6]) and self.first_address == offset and self.value == count)


@contract("goodwe.protocol.ModbusRtuWriteCommand.__init__")
class RtuWriteInit:
    props = ("C03",)
    args = {"self": fresh_instance(ModbusRtuWriteCommand), "comm_addr": "int", "register": "int", "value": "int"}
    returns = "none"
    raises_only = ()

    def requires(comm_addr, register, value):
        return 0 <= comm_addr <= 255 and 0 <= register <= 0xFFFF and -32768 <= value <= 32767

    def ensures_C03_frame(self, comm_addr, register, value):
        r = self.request
        return (len(r) == 8 and r[0] == comm_addr and r[1] == 6 and be16(r[2:4]) == register
                and be16(r[4:6]) == value % 65536 and r[6] + 256 * r[7] == CRC16(r[0:6])
                and self.first_address == register and self.value == value)


@contract("goodwe.protocol.ModbusRtuWriteMultiCommand.__init__")
class RtuWriteMultiInit:
    props = ("C03",)
    args = {"self": fresh_instance(ModbusRtuWriteMultiCommand), "comm_addr": "int", "offset": "int",
            "values": "bytes"}
    returns = "none"
    raises_only = ()

    def requires(comm_addr, offset, values):
        return (0 <= comm_addr <= 255 and 0 <= offset <= 0xFFFF and 2 <= len(values) <= 246
                and len(values) % 2 == 0)

    def ensures_C03_frame(self, comm_addr, offset, values):
        r = self.request
        n = len(values)
        return (len(r) == 9 + n and r[0] == comm_addr and r[1] == 16 and be16(r[2:4]) == offset
                and be16(r[4:6]) * 2 == n and r[6] == n and same_bytes(r[7:7 + n], values)
                and r[7 + n] + 256 * r[8 + n] == CRC16(r[0:7 + n])
                and self.first_address == offset and self.value * 2 == n)


@contract("goodwe.protocol.ModbusTcpReadCommand.__init__")
class TcpReadInit:
    props = ("C03",)
    args = {"self": fresh_instance(ModbusTcpReadCommand), "comm_addr": "int", "offset": "int", "count": "int"}
    returns = "none"
    raises_only = ()

    def requires(comm_addr, offset, count):
        return 0 <= comm_addr <= 255 and 0 <= offset <= 0xFFFF and 1 <= count <= 125

    def ensures_C03_frame(self, comm_addr, offset, count):
        r = self.request
        return (len(r) == 12 and be16(r[2:4]) == 0 and be16(r[4:6]) == 6 and r[6] == comm_addr and r[7] == 3
                and be16(r[8:10]) == offset and be16(r[10:12]) == count
                and self.first_address == offset and self.value == count)


@contract("goodwe.protocol.ModbusTcpWriteCommand.__init__")
class TcpWriteInit:
    props = ("C03",)
    args = {"self": fresh_instance(ModbusTcpWriteCommand), "comm_addr": "int", "register": "int", "value": "int"}
    returns = "none"
    raises_only = ()

    def requires(comm_addr, register, value):
        return 0 <= comm_addr <= 255 and 0 <= register <= 0xFFFF and -32768 <= value <= 32767

    def ensures_C03_frame(self, comm_addr, register, value):
        r = self.request
        return (len(r) == 12 and be16(r[2:4]) == 0 and be16(r[4:6]) == 6 and r[6] == comm_addr and r[7] == 6
                and be16(r[8:10]) == register and be16(r[10:12]) == value % 65536
                and self.first_address == register and self.value == value)


@contract("goodwe.protocol.ModbusTcpWriteMultiCommand.__init__")
class TcpWriteMultiInit:
    props = ("C03",)
    args = {"self": fresh_instance(ModbusTcpWriteMultiCommand), "comm_addr": "int", "offset": "int",
            "values": "bytes"}
    returns = "none"
    raises_only = ()

    def requires(comm_addr, offset, values):
        return (0 <= comm_addr <= 255 and 0 <= offset <= 0xFFFF and 2 <= len(values) <= 246
                and len(values) % 2 == 0)

    def ensures_C03_frame(self, comm_addr, offset, values):
        r = self.request
        n = len(values)
        return (len(r) == 13 + n and be16(r[2:4]) == 0 and be16(r[4:6]) == len(r) - 6 and r[6] == comm_addr
                and r[7] == 16 and be16(r[8:10]) == offset and be16(r[10:12]) * 2 == n and r[12] == n
                and same_bytes(r[13:13 + n], values) and self.first_address == offset and self.value * 2 == n)


# ---- Modbus/TCP transaction identifier (C03, histories) -----------------------------------------------------------------
@contract("goodwe.protocol._next_tx")
class NextTx:
    """One step of the counter.  The module invariant 0 <= tx <= 0xFFFE is established by the initial value 0 (ground
    fact below) and preserved by this step, so histories of any length follow by induction: every transmission
    gets an id in 1..0xFFFE that differs from the previous one."""
    props = ("C03",)
    args = {}
    globals_in = {"goodwe.protocol._modbus_tcp_tx": "int"}
    returns = "bytes"
    raises_only = ()

    def requires(old__modbus_tcp_tx):
        return 0 <= old__modbus_tcp_tx <= 0xFFFE

    def ensures_C03_tx_nonzero_and_changes(old__modbus_tcp_tx, new__modbus_tcp_tx, result):
        return (1 <= new__modbus_tcp_tx <= 0xFFFE and new__modbus_tcp_tx != old__modbus_tcp_tx
                and len(result) == 2 and be16(result) == new__modbus_tcp_tx)


@contract("goodwe.protocol.ModbusTcpProtocolCommand.request_bytes")
class TcpRequestBytes:
    props = ("C03",)
    args = {"self": lambda ex: _tcp_command(ex)}
    globals_in = {"goodwe.protocol._modbus_tcp_tx": "int"}
    returns = "bytes"
    raises_only = ()

    def requires(self, old__modbus_tcp_tx):
        return 0 <= old__modbus_tcp_tx <= 0xFFFE and len(self.request) >= 12

    def ensures_C03_tx_applied_rest_unchanged(self, old__modbus_tcp_tx, new__modbus_tcp_tx, result):
        return (1 <= new__modbus_tcp_tx <= 0xFFFE and new__modbus_tcp_tx != old__modbus_tcp_tx
                and be16(result[0:2]) == new__modbus_tcp_tx and len(result) == len(self.old_request)
                and same_bytes(result[2:], self.old_request[2:]) and same_bytes(self.request, result))


def _tcp_command(ex):
    from pyvc.sbytes import SBytes
    cmd = ex.new_object(ModbusTcpProtocolCommand.__new__(ModbusTcpProtocolCommand))
    cmd.request = SBytes.fresh(ex, "request")
    cmd.old_request = cmd.request
    return cmd


# ---- response trimming and address mapping (C02 payload clause, C12) ------------------------------------------------------
def _any_self(ex):
    return ex.fresh_any("self")


@contract("goodwe.protocol.ModbusRtuProtocolCommand.trim_response")
class RtuTrim:
    inline_at_calls = True      # one-line pure function: the proved body is its own summary at call sites
    props = ("C02", "C12")
    args = {"self": _any_self, "raw_response": "bytes"}
    returns = "bytes"
    raises_only = ()

    def ensures_C02_C12_C14_payload_is_between_header_and_crc(raw_response, result):
        n = len(raw_response)
        return len(result) == (n - 7 if n >= 7 else 0) and same_bytes(result, raw_response[5:n - 2 if n >= 7 else 5])


@contract("goodwe.protocol.ModbusTcpProtocolCommand.trim_response")
class TcpTrim:
    inline_at_calls = True      # one-line pure function: the proved body is its own summary at call sites
    props = ("C02", "C12")
    args = {"self": _any_self, "raw_response": "bytes"}
    returns = "bytes"
    raises_only = ()

    def ensures_C02_C12_C14_payload_is_everything_after_the_header(raw_response, result):
        n = len(raw_response)
        return len(result) == (n - 9 if n >= 9 else 0) and same_bytes(result, raw_response[9:n])


@contract("goodwe.protocol.Aa55ProtocolCommand.trim_response")
class Aa55Trim:
    inline_at_calls = True      # one-line pure function: the proved body is its own summary at call sites
    props = ("C02", "C12")
    args = {"self": _any_self, "raw_response": "bytes"}
    returns = "bytes"
    raises_only = ()

    def ensures_C02_C12_C14_payload_is_between_header_and_checksum(raw_response, result):
        n = len(raw_response)
        return len(result) == (n - 9 if n >= 9 else 0) and same_bytes(result, raw_response[7:n - 2 if n >= 9 else 7])


def _cmd_with_first(cls):
    def make(ex):
        c = ex.new_object(cls.__new__(cls))
        c.first_address = ex.fresh_int("first")
        return c
    return make


@contract("goodwe.protocol.ModbusRtuProtocolCommand.get_offset")
class RtuGetOffset:
    inline_at_calls = True      # one-line pure function: the proved body is its own summary at call sites
    props = ("C12",)
    args = {"self": _cmd_with_first(ModbusRtuProtocolCommand), "address": "int"}
    returns = "int"
    raises_only = ()

    def ensures_C12_two_bytes_per_register_from_block_start(self, address, result):
        return result == (address - self.first_address) * 2


@contract("goodwe.protocol.ModbusTcpProtocolCommand.get_offset")
class TcpGetOffset:
    inline_at_calls = True      # one-line pure function: the proved body is its own summary at call sites
    props = ("C12",)
    args = {"self": _cmd_with_first(ModbusTcpProtocolCommand), "address": "int"}
    returns = "int"
    raises_only = ()

    def ensures_C12_two_bytes_per_register_from_block_start(self, address, result):
        return result == (address - self.first_address) * 2


@contract("goodwe.protocol.ProtocolCommand.get_offset")
class PlainGetOffset:
    inline_at_calls = True      # one-line pure function: the proved body is its own summary at call sites
    props = ("C12",)
    args = {"self": _any_self, "address": "int"}
    returns = "int"
    raises_only = ()

    def ensures_C12_plain_byte_offset(address, result):
        return result == address
