"""Contracts for the command classes of goodwe/protocol.py (C01, C02, C03, C07, C12)."""
import ast
import glob
import os

from pyvc.spec import *
from pyvc.api import contract
from goodwe.exceptions import PartialResponseException, RequestRejectedException


def aa55_response_types():
    """every response-type literal handed to an AA55 command constructor anywhere in the tree being checked"""
    import goodwe
    found = {""}
    for path in glob.glob(os.path.join(os.path.dirname(goodwe.__file__), "*.py")):
        tree = ast.parse(open(path).read())
        for n in ast.walk(tree):
            if isinstance(n, ast.Call) and len(n.args) >= 2 and isinstance(n.args[1], ast.Constant) \
                    and isinstance(n.args[1].value, str) and len(n.args[1].value) == 4:
                try:
                    int(n.args[1].value, 16)
                except ValueError:
                    continue
                found.add(n.args[1].value)
    return sorted(found)


def wf_aa55(B, response_type):
    """B is a well-formed AA55 answer of the given response type (C01 statement)"""
    n = len(B)
    return (n >= 9 and n == B[6] + 9
            and (response_type == "" or be16(B[4:6]) == int(response_type, 16))
            and SUM(B[0:n - 2]) % 65536 == be16(B[n - 2:n]))


def fragment_aa55(B):
    return len(B) >= 9 and len(B) < B[6] + 9


def _choose_response_type(ex):
    types = aa55_response_types()
    return types[ex.choose(len(types), tag="response_type")]


def _fix_sum(data):
    """candidate repairs of a solver witness: real checksum, optionally with the payload refilled (the solver's
    model of SUM is not tied to the byte values it picked)"""
    out = []
    if len(data) >= 9:
        for fill in (None, 0xFF, 0x80, 0x00):
            d = bytearray(data)
            if fill is not None:
                for i in range(7, len(d) - 2):
                    d[i] = fill
            s = SUM(bytes(d[:-2])) % 65536
            d[-2] = s >> 8
            d[-1] = s & 0xFF
            out.append(bytes(d))
    return out


@contract("goodwe.protocol.Aa55ProtocolCommand._checksum")
class Aa55Checksum:
    props = ("C03",)
    args = {"data": "bytes"}
    returns = "bytes"
    pure = True
    raises_only = (OverflowError,)

    def ensures_C03_sum(data, result):
        return len(result) == 2 and be16(result) == SUM(data)

    def raises_OverflowError__C03_only_when_sum_exceeds_16_bits(data, raised):
        return SUM(data) > 0xFFFF

    def loop0_inv(data, checksum, _i):
        return checksum == SUM(data[0:_i])

    def samples():
        return [(b"",), (bytes.fromhex("AA55C07F010200"),), (b"\xff" * 100,), (b"\xff" * 300,)]


@contract("goodwe.protocol.Aa55ProtocolCommand._validate_aa55_response")
class ValidateAa55:
    props = ("C01",)
    args = {"data": "bytes", "response_type": _choose_response_type}
    returns = "bool"
    pure = True
    raises_only = (PartialResponseException,)
    cover = ("True", "False", "PartialResponseException")

    def ensures_C01_accept_implies_wellformed(data, response_type, result):
        return (result is True or result is False) and (not result or wf_aa55(data, response_type))

    def ensures_C02_wellformed_implies_accept(data, response_type, result):
        return result or not wf_aa55(data, response_type)

    def ensures_C07_fragment_is_partial(data, response_type, result):
        return not fragment_aa55(data)

    def raises_PartialResponseException__C07_fragment(data, response_type, raised):
        return (len(data) >= 9 and raised.length == len(data) and raised.expected == data[6] + 9
                and raised.expected > len(data))

    def raises_PartialResponseException__C02_not_a_complete_frame(data, response_type, raised):
        return not wf_aa55(data, response_type)

    def loop0_inv(data, checksum, _i):
        return checksum == SUM(data[0:_i])

    def repair(args):
        return [dict(args, data=d) for d in _fix_sum(args["data"])]

    def samples():
        body = bytes.fromhex("AA557FC0018204") + b"\x01\x02\x03\x04"
        f = body + (sum(body) % 65536).to_bytes(2, "big")
        big = bytes.fromhex("AA557FC0018682") + b"\xff" * 130
        g = big + (sum(big) % 65536).to_bytes(2, "big")
        out = []
        for fr, rt in ((f, "0182"), (f, ""), (f, "0186"), (g, "0186"), (f + b"x", "0182")):
            out.append((fr, rt))
            for k in range(0, len(fr), 3):
                out.append((fr[:k], rt))
            out.append((fr[:-1] + bytes([fr[-1] ^ 1]), rt))
        return out
