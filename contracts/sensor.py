"""Per-class specifications of the sensor decoders in goodwe/sensor.py (C11, C12, C13, C16, C17, C20).

`width` is the number of bytes a class may read starting at its own register position; `ref(b, s)` is the
documented interpretation of exactly those bytes (b = the `width`-byte view, s = the table row).  The texts are
written from the class docstrings and the statement of C12: big-endian; signedness as the class name says;
scale 10 (V, A, C, kWh), 100 (Hz, 8-byte kWh), 1000 (meter kWh, Decimal/Float by their `scale` field);
sentinel 0xFFFF.. -> None (0 for voltage/current/integers as the helper documents), -1/0x7FFF -> None for
temperatures.
"""
from pyvc.spec import *
from pyvc.api import contract


def _u2_none(b):
    v = be(b, 2)
    return None if v == 0xFFFF else v


def _u4_none(b):
    v = be(b, 4)
    return None if v == 0xFFFFFFFF else v


def ref_Voltage(b, s):
    v = be(b, 2)
    return 0 if v == 0xFFFF else fdiv(v, 10)


ref_Current = ref_Voltage


def ref_CurrentS(b, s):
    return fdiv(sbe(b, 2), 10)


def ref_Frequency(b, s):
    return fdiv(sbe(b, 2), 100)


def ref_Power(b, s):
    return _u2_none(b)


def ref_PowerS(b, s):
    return sbe(b, 2)


def ref_Power4(b, s):
    return _u4_none(b)


def ref_Power4S(b, s):
    return sbe(b, 4)


def ref_Energy(b, s):
    v = be(b, 2)
    return None if v == 0xFFFF else fdiv(v, 10)


def ref_Energy4(b, s):
    v = be(b, 4)
    return None if v == 0xFFFFFFFF else fdiv(v, 10)


def ref_Energy4W(b, s):
    v = be(b, 4)
    return None if v == 0xFFFFFFFF else fdiv(v, 1000)


def ref_Energy8(b, s):
    v = be(b, 8)
    return None if v == 0xFFFFFFFFFFFFFFFF else fdiv(v, 100)


ref_Apparent = ref_PowerS
ref_Apparent4 = ref_Power4S
ref_Reactive = ref_PowerS
ref_Reactive4 = ref_Power4S


def ref_Temp(b, s):
    v = sbe(b, 2)
    return None if (v == -1 or v == 32767) else fdiv(v, 10)


def ref_CellVoltage(b, s):
    v = be(b, 2)
    return fdiv(0 if v == 0xFFFF else fdiv(v, 10), 100)


def ref_Byte(b, s):
    return s8(b[0])


ref_ByteH = ref_Byte


def ref_ByteL(b, s):
    return s8(b[1])


def ref_Integer(b, s):
    v = be(b, 2)
    return 0 if v == 0xFFFF else v


def ref_IntegerS(b, s):
    return sbe(b, 2)


def ref_Long(b, s):
    v = be(b, 4)
    return 0 if v == 0xFFFFFFFF else v


def ref_LongS(b, s):
    return sbe(b, 4)


def ref_Decimal(b, s):
    return fdiv(sbe(b, 2), s.scale)


def ref_Float(b, s):
    return round_n(fdiv(unpack_f32(b), s.scale), 3)


def ref_Enum(b, s):
    return s._labels.get(s8(b[0]))


ref_EnumH = ref_Enum


def ref_EnumL(b, s):
    return s._labels.get(s8(b[1]))


def ref_Enum2(b, s):
    v = be(b, 2)
    return s._labels.get(0 if v == 0xFFFF else v)


def ref_EnumBitmap4(b, s):
    v = be(b, 4)
    return bits_label(0 if v == 0xFFFFFFFF else v, s._labels)


# width (bytes a row may touch from its own position), reference decoder
CLASS_SPECS = {
    "Voltage": (2, ref_Voltage), "Current": (2, ref_Current), "CurrentS": (2, ref_CurrentS),
    "Frequency": (2, ref_Frequency), "Power": (2, ref_Power), "PowerS": (2, ref_PowerS),
    "Power4": (4, ref_Power4), "Power4S": (4, ref_Power4S), "Energy": (2, ref_Energy), "Energy4": (4, ref_Energy4),
    "Energy4W": (4, ref_Energy4W), "Energy8": (8, ref_Energy8), "Apparent": (2, ref_Apparent),
    "Apparent4": (4, ref_Apparent4), "Reactive": (2, ref_Reactive), "Reactive4": (4, ref_Reactive4),
    "Temp": (2, ref_Temp), "CellVoltage": (2, ref_CellVoltage), "Byte": (1, ref_Byte), "ByteH": (1, ref_ByteH),
    "ByteL": (2, ref_ByteL), "Integer": (2, ref_Integer), "IntegerS": (2, ref_IntegerS), "Long": (4, ref_Long),
    "LongS": (4, ref_LongS), "Decimal": (2, ref_Decimal), "Float": (4, ref_Float), "Enum": (1, ref_Enum),
    "EnumH": (1, ref_EnumH), "EnumL": (2, ref_EnumL), "Enum2": (2, ref_Enum2), "EnumBitmap4": (4, ref_EnumBitmap4),
    # structured values: footprint and field equalities are checked by the harness (pyvc.sensor_harness)
    "Timestamp": (6, None), "EcoModeV1": (8, None), "Schedule": (12, None), "EcoModeV2": (12, None),
    "PeakShavingMode": (12, None),
}

ECO_V1_FIELDS = (("start_h", 0, 1), ("start_m", 1, 1), ("end_h", 2, 1), ("end_m", 3, 1), ("power", 4, 2),
                 ("on_off", 6, 1), ("day_bits", 7, 1))
SCHEDULE_FIELDS = (("start_h", 0, 1), ("start_m", 1, 1), ("end_h", 2, 1), ("end_m", 3, 1), ("on_off", 4, 1),
                   ("day_bits", 5, 1), ("power", 6, 2), ("soc", 8, 2), ("month_bits", 10, 2))


def field_value(b, off, n):
    return sbe(b[off:off + n], n)


# ---- helper functions that build strings from bit masks: total on their whole domain (exhaustive, native) -----------
@contract("goodwe.sensor.decode_day_of_week")
class DecodeDayOfWeek:
    """assumed at call sites; discharged by exhaustive evaluation of the real function over -128..127
    (native unit C11/exhaustive_decode_day_of_week)"""
    props = ("C11",)
    args = {"data": "int"}
    returns = "str"
    raises_only = ()
    exhaustive = True

    def requires(data):
        return -128 <= data <= 127


@contract("goodwe.sensor.decode_months")
class DecodeMonths:
    """assumed at call sites; discharged by exhaustive evaluation over -32768..32767"""
    props = ("C11",)
    args = {"data": "int"}
    returns = "any"
    raises_only = ()
    exhaustive = True

    def requires(data):
        return -32768 <= data <= 32767


def sensor_tables():
    """every class-level tuple of Sensor definitions of the three families, discovered from the classes themselves"""
    from goodwe.et import ET
    from goodwe.dt import DT
    from goodwe.es import ES
    from goodwe.inverter import Sensor
    out = {}
    for fam in (ET, DT, ES):
        for name, val in vars(fam).items():
            if isinstance(val, tuple) and val and all(isinstance(x, Sensor) for x in val):
                out[f"{fam.__name__}.{name}"] = val
    return out


def table_kind(tname):
    """how a table's offsets map to byte positions: Modbus blocks (address - first) * 2, AA55 blocks plain offset"""
    if tname.startswith("ES.") and "arm_fw_14" not in tname:
        return "plain"
    return "modbus"


# ---- native exhaustive obligations --------------------------------------------------------------------------------------
def exhaustive_string_decoders():
    from goodwe import sensor
    failures = []
    cases = 0
    for name, fn, lo, hi in (("decode_day_of_week", sensor.decode_day_of_week, -128, 127),
                             ("decode_months", sensor.decode_months, -32768, 32767)):
        for v in range(lo, hi + 1):
            cases += 1
            try:
                r = fn(v)
                if not (r is None or isinstance(r, str)):
                    failures.append({"obligation": f"C11_{name}_total", "input": v, "result": repr(r)})
            except Exception as e:      # noqa
                failures.append({"obligation": f"C11_{name}_total", "input": v, "raised": type(e).__name__})
    return {"cases": cases, "exhaustive": True, "failures": failures,
            "obligations": [{"name": "C11_decode_day_of_week_total", "cases": 256,
                             "detail": "real function on every signed byte"},
                            {"name": "C11_decode_months_total", "cases": 65536,
                             "detail": "real function on every signed 16-bit word"}]}
