"""Native replay of inverter-level scenarios: the real ET/DT/ES objects with Inverter._read_from_socket replaced by a
scripted transport that plays back the outcomes of a solver witness (payload bytes / raised exception per request)."""
import asyncio

from goodwe.exceptions import RequestFailedException, RequestRejectedException, InverterError
from goodwe.protocol import (ProtocolResponse, Aa55ProtocolCommand, ModbusRtuProtocolCommand, ModbusTcpProtocolCommand)


def request_kind(command):
    r = command.request
    if isinstance(command, ModbusRtuProtocolCommand):
        return "read" if r[1] == 3 else "write"
    if isinstance(command, ModbusTcpProtocolCommand):
        return "read" if r[7] == 3 else "write"
    if isinstance(command, Aa55ProtocolCommand):
        return "read" if r[4] == 1 else "write"
    return "other"


def frame_around(command, payload):
    if isinstance(command, ModbusRtuProtocolCommand):
        return b"\xaa\x55\xf7\x03" + bytes([len(payload) % 256]) + payload + b"\x00\x00"
    if isinstance(command, ModbusTcpProtocolCommand):
        return bytes(8) + bytes([len(payload) % 256]) + payload
    if isinstance(command, Aa55ProtocolCommand):
        return b"\xaa\x55\x7f\xc0\x01\x00" + bytes([len(payload) % 256]) + payload + b"\x00\x00"
    return payload


def make_inverter(family, variant=0):
    from goodwe.et import ET
    from goodwe.dt import DT
    from goodwe.es import ES
    cls = {"ET": ET, "DT": DT, "ES": ES}[family]
    inv = cls("host", 8899, 0, 1, 3)
    inv.serial_number = "0000000000000000"
    if family == "ET":
        if variant >= 1:
            inv._settings.update({s.id_: s for s in cls._ET__settings_arm_fw_19})
        if variant >= 2:
            inv._settings.update({s.id_: s for s in cls._ET__settings_arm_fw_22})
    elif family == "DT":
        if variant == 1:
            inv._settings.update({s.id_: s for s in cls._DT__settings_single_phase})
        if variant == 2:
            inv._settings.update({s.id_: s for s in cls._DT__settings_three_phase})
    elif variant == 1:
        inv._settings.update({s.id_: s for s in cls._ES__settings_arm_fw_14})
    return inv


def run_scripted(inv, method, args, script):
    log = []
    pos = [0]

    async def stub(command):
        log.append(request_kind(command))
        step = script[pos[0]] if pos[0] < len(script) else {"kind": "return", "payload": b""}
        pos[0] += 1
        if step["kind"] == "raise":
            if step["cls"] == "RequestRejectedException":
                raise RequestRejectedException(step.get("message", ""))
            raise RequestFailedException(step.get("message", ""), 1)
        payload = bytes(step["payload"])
        return ProtocolResponse(frame_around(command, payload), command)

    inv._read_from_socket = stub
    out = {"raised": None, "raised_cls": None, "result": None}
    try:
        res = asyncio.run(getattr(inv, method)(*args))
        out["result"] = repr(res)[:300]
        if isinstance(res, dict):
            out["keys"] = list(res.keys())
    except BaseException as e:      # noqa
        out["raised"] = repr(e)[:300]
        out["raised_cls"] = type(e).__name__
        out["is_inverter_error"] = isinstance(e, InverterError)
        out["is_value_error"] = isinstance(e, ValueError)
    out["requests"] = log
    out["requests_used"] = pos[0]
    return out


def replay_readonly(family, method, args, script, variant, check):
    inv = make_inverter(family, variant)
    out = run_scripted(inv, method, list(args), list(script))
    if check.startswith("C09_only_documented_exceptions"):
        out["violates"] = out["raised"] is not None and not (out["is_inverter_error"] or out["is_value_error"])
    elif check.startswith("C18_only_read_requests"):
        out["violates"] = any(k != "read" for k in out["requests"])
    elif check.startswith("C11_every_setting_id_reported"):
        want = []
        for s in inv.settings():
            if s.id_ not in want:
                want.append(s.id_)
        out["violates"] = out.get("keys") != want
    else:
        out["violates"] = False
        out["note"] = "check not re-evaluated natively"
    return out
