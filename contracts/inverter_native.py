"""Native replay of inverter-level scenarios: the real ET/DT/ES objects with Inverter._read_from_socket replaced by a
scripted transport that plays back the outcomes of a solver witness (payload bytes / raised exception per request)."""
import asyncio

from goodwe.exceptions import RequestFailedException, RequestRejectedException, InverterError
from goodwe.protocol import (ProtocolResponse, Aa55ProtocolCommand, ModbusRtuProtocolCommand, ModbusTcpProtocolCommand)


def request_kind(command):
    r = command.request
    if isinstance(command, ModbusRtuProtocolCommand):
        return "read" if r[1] == 3 else "write"
    if isinstance(command, ModbusTcpProtocolCommand):
        return "read" if r[7] == 3 else "write"
    if isinstance(command, Aa55ProtocolCommand):
        return "read" if r[4] == 1 else "write"
    return "other"


def frame_around(command, payload):
    if isinstance(command, ModbusRtuProtocolCommand):
        return b"\xaa\x55\xf7\x03" + bytes([len(payload) % 256]) + payload + b"\x00\x00"
    if isinstance(command, ModbusTcpProtocolCommand):
        return bytes(8) + bytes([len(payload) % 256]) + payload
    if isinstance(command, Aa55ProtocolCommand):
        return b"\xaa\x55\x7f\xc0\x01\x00" + bytes([len(payload) % 256]) + payload + b"\x00\x00"
    return payload


def make_inverter(family, variant=0):
    from goodwe.et import ET
    from goodwe.dt import DT
    from goodwe.es import ES
    cls = {"ET": ET, "DT": DT, "ES": ES}[family]
    inv = cls("host", 8899, 0, 1, 3)
    inv.serial_number = "0000000000000000"
    if family == "ET":
        if variant >= 1:
            inv._settings.update({s.id_: s for s in cls._ET__settings_arm_fw_19})
        if variant >= 2:
            inv._settings.update({s.id_: s for s in cls._ET__settings_arm_fw_22})
    elif family == "DT":
        if variant == 1:
            inv._settings.update({s.id_: s for s in cls._DT__settings_single_phase})
        if variant == 2:
            inv._settings.update({s.id_: s for s in cls._DT__settings_three_phase})
    elif variant == 1:
        inv._settings.update({s.id_: s for s in cls._ES__settings_arm_fw_14})
    return inv


def run_scripted(inv, method, args, script):
    log = []
    pos = [0]

    async def stub(command):
        log.append(request_kind(command))
        step = script[pos[0]] if pos[0] < len(script) else {"kind": "return", "payload": b""}
        pos[0] += 1
        if step["kind"] == "raise":
            if step["cls"] == "RequestRejectedException":
                raise RequestRejectedException(step.get("message", ""))
            raise RequestFailedException(step.get("message", ""), 1)
        payload = bytes(step["payload"])
        return ProtocolResponse(frame_around(command, payload), command)

    inv._read_from_socket = stub
    out = {"raised": None, "raised_cls": None, "result": None}
    try:
        res = asyncio.run(getattr(inv, method)(*args))
        out["result"] = repr(res)[:300]
        if isinstance(res, dict):
            out["keys"] = list(res.keys())
    except BaseException as e:      # noqa
        out["raised"] = repr(e)[:300]
        out["raised_cls"] = type(e).__name__
        out["is_inverter_error"] = isinstance(e, InverterError)
        out["is_value_error"] = isinstance(e, ValueError)
    out["requests"] = log
    out["requests_used"] = pos[0]
    return out


def replay_readonly(family, method, args, script, variant, check, prior=None, script_skip=0):
    inv = make_inverter(family, variant)
    script = list(script)
    if prior:
        # the history of the witness: an earlier write through the public API on the same object (its own outcomes are
        # the first script_skip entries of the script)
        run_scripted(inv, prior["method"], list(prior["args"]), script[:script_skip])
        script = script[script_skip:]
    out = run_scripted(inv, method, list(args), script)
    if check.startswith("C09_only_InverterError"):
        out["violates"] = out["raised"] is not None and not out["is_inverter_error"]
    elif check.startswith("C09_only_documented_exceptions"):
        out["violates"] = out["raised"] is not None and not (out["is_inverter_error"] or out["is_value_error"])
    elif check.startswith("C18_only_read_requests"):
        out["violates"] = any(k != "read" for k in out["requests"])
    elif check.startswith("C11_every_setting_id_reported"):
        want = []
        for s in inv.settings():
            if s.id_ not in want:
                want.append(s.id_)
        out["violates"] = out.get("keys") != want
    else:
        out["violates"] = False
        out["note"] = "check not re-evaluated natively"
    return out


# ---- native register-file inverter (independent decoder of the request frames), used to replay C17 / C19 witnesses --------
class NativeRegs:
    def __init__(self, mem=None, aa=None, blob=None):
        self.mem = dict(mem or {})
        self.aa = dict(aa or {})
        self.blob = bytearray(blob or bytes(100))
        self.log = []

    def get(self, space, addr):
        return (self.mem if space == "modbus" else self.aa).get(addr, 0)

    def answer(self, command):
        r = command.request
        if isinstance(command, (ModbusRtuProtocolCommand, ModbusTcpProtocolCommand)):
            o = 0 if isinstance(command, ModbusRtuProtocolCommand) else 6
            fn, addr = r[o + 1], r[o + 2] * 256 + r[o + 3]
            if fn == 3:
                count = r[o + 4] * 256 + r[o + 5]
                self.log.append(("read", "modbus", addr, count))
                return b"".join(self.mem.get(addr + i, 0).to_bytes(2, "big") for i in range(count))
            if fn == 6:
                self.mem[addr] = r[o + 4] * 256 + r[o + 5]
                self.log.append(("write", "modbus", addr, 1, bytes(r[o + 4:o + 6])))
                return bytes(4)
            if fn == 16:
                n = r[o + 6]
                data = bytes(r[o + 7:o + 7 + n])
                for i in range(n // 2):
                    self.mem[addr + i] = data[2 * i] * 256 + data[2 * i + 1]
                self.log.append(("write", "modbus", addr, n // 2, data))
                return bytes(4)
        if isinstance(command, Aa55ProtocolCommand):
            ctrl, func = r[4], r[5]
            if (ctrl, func) == (1, 0x1A):
                addr, count = r[7] * 256 + r[8], r[9]
                self.log.append(("read", "aa55", addr, count))
                return b"".join(self.aa.get(addr + i, 0).to_bytes(2, "big") for i in range(count))
            if (ctrl, func) == (2, 0x39):
                addr, n = r[7] * 256 + r[8], r[9]
                data = bytes(r[10:12]) if r[6] == 5 else bytes(r[10:10 + n])
                if addr == 0x560:
                    self.blob[32:34] = data[0:2]
                else:
                    for i in range(len(data) // 2):
                        self.aa[addr + i] = data[2 * i] * 256 + data[2 * i + 1]
                self.log.append(("write", "aa55", addr, len(data) // 2, data))
                return b"\x06"
            if (ctrl, func) == (1, 9):
                self.log.append(("read", "settings", 0, len(self.blob)))
                return bytes(self.blob)
            if ctrl == 1:
                self.log.append(("read", "other", 0, 0))
                return bytes(128)
            if (ctrl, func) == (3, 0x59):
                self.blob[66:68] = bytes([0, r[7]])
                self.log.append(("write", "work_mode", 66, 1, bytes(r[7:8])))
                return b"\x06"
            if (ctrl, func) == (3, 0x35):
                self.blob[52:54] = bytes(r[7:9])
                self.log.append(("write", "export_limit", 52, 1, bytes(r[7:9])))
                return b"\x06"
            self.log.append(("write", "other", (ctrl, func), 0, b""))
            return b"\x06"
        return b""


def attach_regs(inv, regs):
    async def stub(command):
        return ProtocolResponse(frame_around(command, regs.answer(command)), command)
    inv._read_from_socket = stub


def replay_write(family, table, sid, value, port, check, prior_word=0x1234):
    """C17: write_setting(id, value) on the real class against the native register file, then read it back"""
    from contracts import sensor as cs
    import datetime
    inv = make_inverter(family, 0) if port != 502 else type(make_inverter(family, 0))("host", 502, 0, 1, 3)
    s = [r for r in cs.sensor_tables()[table] if r.id_ == sid][0]
    inv._settings[sid] = s
    regs = NativeRegs()
    for i in range(8):
        regs.mem[s.offset + i] = prior_word
        regs.aa[s.offset + i] = prior_word
    before_mem, before_aa = dict(regs.mem), dict(regs.aa)
    attach_regs(inv, regs)
    if isinstance(value, dict) and "fields" in value:
        value = datetime.datetime(*value["fields"][:6])
    out = {"value": repr(value)}
    try:
        asyncio.run(inv.write_setting(sid, value))
    except BaseException as e:      # noqa
        out["raised"] = repr(e)
        writes = [e for e in regs.log if e[0] == "write"]
        out["violates"] = check.startswith("C17_no_write_when_encoding_fails") and bool(writes)
        return out
    writes = [e for e in regs.log if e[0] == "write"]
    out["writes"] = [(w[1], w[2], w[3], w[4].hex()) for w in writes]
    nregs = (s.size_ + 1) // 2
    if check.startswith("C17_exactly_one_write"):
        out["violates"] = len(writes) != 1
    elif check.startswith("C17_write_addresses") or check.startswith("C17_write_covers"):
        out["violates"] = len(writes) != 1 or writes[0][2] != s.offset or writes[0][3] != nregs
    elif check.startswith("C17_other_half"):
        other = 1 if type(s).__name__ == "ByteH" else 0
        out["violates"] = len(writes) != 1 or writes[0][4][other] != prior_word.to_bytes(2, "big")[other]
    elif check.startswith("C17_written_value_reads_back") or check.startswith("C17_sentinel"):
        try:
            back = asyncio.run(inv.read_setting(sid))
        except BaseException as e:      # noqa
            back = e
        out["reads_back"] = repr(back)
        out["violates"] = not (back == value)
    else:
        changed = [a for a in set(before_mem) | set(regs.mem) if before_mem.get(a, 0) != regs.mem.get(a, 0)]
        changed += [a for a in set(before_aa) | set(regs.aa) if before_aa.get(a, 0) != regs.aa.get(a, 0)]
        out["changed"] = sorted(changed)
        out["violates"] = any(not (s.offset <= a < s.offset + nregs) for a in changed)
    return out


def _c19_inverter(family, fw2, p745):
    inv = make_inverter(family, 0)
    inv.serial_number = "9000ETT000000000" if p745 else "9000ETU000000000"
    if family == "ET":
        if fw2:
            inv._settings.update({s.id_: s for s in type(inv)._ET__settings_arm_fw_19})
        else:
            inv._has_eco_mode_v2 = False
    else:
        inv.serial_number = "9000ESU000000000"
        if fw2:
            inv._settings.update({s.id_: s for s in type(inv)._ES__settings_arm_fw_14})
        inv.arm_version = 14 if fw2 else 5
        inv.dsp1_version = 22 if fw2 else 1
    return inv


def replay_opmode(family, fw2, p745, mode, power, soc, prior, check):
    if check.startswith("C19_other_groups_switched_off_in_the_register_file"):
        # native search over the decodable "on" bytes of groups 2..4
        out = {}
        for on in ((0xFF, 0xFE, 0xFD, 0xFC, 0xFB, 0xFA, 0xF9) if fw2 else (0xFF,)):
            out = _replay_opmode(family, fw2, p745, mode, power, soc, prior, check, on)
            if out.get("violates"):
                out["groups_2_4_on_off_before"] = on
                return out
        return out
    return _replay_opmode(family, fw2, p745, mode, power, soc, prior, check, 0xFF)


def _replay_opmode(family, fw2, p745, mode, power, soc, prior, check, on):
    from goodwe.inverter import OperationMode
    inv = _c19_inverter(family, fw2, p745)
    regs = NativeRegs()
    base = (47547 if fw2 else 47515) if family == "ET" else (47547 if fw2 else 0x701)
    prior = bytes(prior) + bytes(32)
    for i in range(16):
        w = prior[2 * i] * 256 + prior[2 * i + 1]
        regs.mem[base + i] = w
        regs.aa[base + i] = w
    # groups 2..4 enabled beforehand (on/off byte 0xFF; layout E3 of the harness), the rest of them zero
    def onoff_reg(k):
        if fw2:
            return "mem", 47547 + 6 * (k - 1) + 2
        if family == "ET":
            return "mem", 47515 + 4 * (k - 1) + 3
        return "aa", 0x701 + 4 * (k - 1) + 3
    if check.startswith("C19_other_groups_switched_off_in_the_register_file"):
        for k in (2, 3, 4):
            sp, reg = onoff_reg(k)
            getattr(regs, sp)[reg] = (on << 8) | (getattr(regs, sp).get(reg, 0) & 0xFF)
    attach_regs(inv, regs)
    m = OperationMode(mode)
    out = {"mode": m.name}
    try:
        asyncio.run(inv.set_operation_mode(m, power, soc))
    except BaseException as e:      # noqa
        out["setter_raised"] = repr(e)
        out["violates"] = True
        return out
    try:
        got = asyncio.run(inv.get_operation_mode())
    except BaseException as e:      # noqa
        out["getter_raised"] = repr(e)
        out["violates"] = True
        return out
    out["got"] = str(got)
    if check.startswith("C19_getter_returns_mode"):
        out["violates"] = got is not m
        return out
    if check.startswith("C19_setter_succeeds"):
        out["violates"] = False
        return out
    eco = asyncio.run(inv.read_setting("eco_mode_1"))
    out["eco"] = str(eco)
    if check.startswith("C19_first_group_decodes_to_requested_power"):
        out["violates"] = eco.get_power() != (-power if m == OperationMode.ECO_CHARGE else power)
    elif check.startswith("C19_first_group_decodes_to_requested_soc"):
        out["violates"] = eco.soc != soc
    elif check.startswith("C19_other_groups_switched_off_in_the_register_file"):
        hb = {k: getattr(regs, onoff_reg(k)[0]).get(onoff_reg(k)[1], 0) >> 8 for k in (2, 3, 4)}
        out["on_off_bytes_after"] = hb
        out["violates"] = any((v >= 249) if fw2 else (v != 0) for v in hb.values())
    elif check.startswith("C19_other_groups"):
        vals = [asyncio.run(inv.read_setting(f"eco_mode_{k}_switch")) for k in (2, 3, 4)]
        out["switches"] = vals
        out["violates"] = any(v != 0 for v in vals)
    else:
        out["violates"] = False
    return out


def replay_limit(family, which, x, variant):
    inv = make_inverter(family, variant)
    regs = NativeRegs()
    attach_regs(inv, regs)
    out = {}
    try:
        if which == "export_limit":
            asyncio.run(inv.set_grid_export_limit(x))
            got = asyncio.run(inv.get_grid_export_limit())
        else:
            asyncio.run(inv.set_ongrid_battery_dod(x))
            got = asyncio.run(inv.get_ongrid_battery_dod())
    except BaseException as e:      # noqa
        out["raised"] = repr(e)
        out["violates"] = not (family == "DT" and which == "dod" and isinstance(e, InverterError))
        return out
    out["got"] = repr(got)
    out["violates"] = got != x
    return out


def replay_c16(family, sid, check):
    """native search: register files with seeded random contents; single read vs bulk read of one id, or the cache
    history (capabilities change between a single read and a bulk read)"""
    import random
    rnd = random.Random(7)
    out = {"violates": False}
    if check.startswith("C16_read_sensor_uses_the_definition"):
        import itertools
        from goodwe.modbus import ILLEGAL_DATA_ADDRESS
        blocks = {"ET": ("_READ_BATTERY_INFO", "_READ_BATTERY2_INFO", "_READ_METER_DATA_EXTENDED2",
                         "_READ_METER_DATA_EXTENDED", "_READ_MPPT_DATA"), "DT": ("_READ_METER_DATA",)}[family]
        for before in (False, True):
            for k in range(len(blocks) + 1):
                for refused in itertools.combinations(blocks, k):
                    inv = make_inverter(family, 0)
                    regs = NativeRegs()
                    for a in range(30000, 48000):
                        regs.mem[a] = 1
                    bad = {bytes(getattr(inv, b).request) for b in refused}

                    async def stub(command, regs=regs, bad=bad):
                        if bytes(command.request) in bad:
                            raise RequestRejectedException(ILLEGAL_DATA_ADDRESS)
                        return ProtocolResponse(frame_around(command, regs.answer(command)), command)
                    inv._read_from_socket = stub
                    if family == "ET":
                        inv._has_battery = inv._has_mppt = before
                        inv._has_meter_extended = inv._has_meter_extended2 = True
                    else:
                        inv._has_meter = before
                    first = inv.sensors()[1].id_
                    try:
                        asyncio.run(inv.read_sensor(first))
                        asyncio.run(inv.read_runtime_data())
                    except BaseException as e:      # noqa
                        out["note"] = repr(e)
                        continue
                    last = {s.id_: s for s in inv.sensors()}
                    stale = [i for i, s in last.items() if inv._get_sensor(i) is not s]
                    if stale:
                        out.update(violates=True, stale=stale[:8], refused_blocks=list(refused), capabilities_before=before)
                        return out
        return out
    if check.startswith("C16_every_listed_id_is_known"):
        for before in (False, True):
            inv = make_inverter(family, 0)
            regs = NativeRegs()
            for a in range(30000, 48000):
                regs.mem[a] = 1
            attach_regs(inv, regs)
            if family == "ET":
                inv._has_battery = before
                inv._has_mppt = before
            else:
                inv._has_meter = before
            first = inv.sensors()[1].id_
            try:
                asyncio.run(inv.read_sensor(first))
                asyncio.run(inv.read_runtime_data())
            except BaseException as e:      # noqa
                out["note"] = repr(e)
                continue
            missing = [s.id_ for s in inv.sensors() if inv._get_sensor(s.id_) is None]
            if missing:
                out.update(violates=True, missing=missing[:8], capabilities_before=before)
                return out
        return out
    for trial in range(40):
        inv = make_inverter(family, 0)
        if family == "ET":
            inv._has_battery2 = inv._has_mppt = inv._has_meter_extended = inv._has_meter_extended2 = True
        regs = NativeRegs()
        fill = (0, 0xFFFF, 1, 0x8000)[trial] if trial < 4 else None
        for a in range(30000, 48000):
            regs.mem[a] = fill if fill is not None else rnd.choice((0, 1, 0xFFFF, 0x7FFF, 0x8000, rnd.randrange(65536)))
        if fill == 0:
            regs.mem[35184] = 1
        attach_regs(inv, regs)
        try:
            data = asyncio.run(inv.read_runtime_data())
        except BaseException as e:      # noqa
            continue
        if sid not in [s.id_ for s in inv.sensors()]:
            continue
        bulk = data.get(sid)
        try:
            single = asyncio.run(inv.read_sensor(sid))
        except NotImplementedError:
            if check.startswith("C16_read_value_is_implemented"):
                return {"violates": True, "detail": "NotImplementedError"}
            continue
        except ValueError as e:
            if bulk is not None or "nknown" in str(e):
                return {"violates": True, "bulk": repr(bulk), "single": repr(e), "trial": trial}
            continue
        except BaseException as e:      # noqa
            return {"violates": True, "single": repr(e), "trial": trial}
        same = (single == bulk) or (single != single and bulk != bulk)
        if not same:
            return {"violates": True, "bulk": repr(bulk), "single": repr(single), "trial": trial}
    return out


# ---- C15 scenarios ---------------------------------------------------------------------------------------------------------
def _et_states():
    out = []
    for sp in (0, 1):
        for pvf in (0, 1):
            for lvl, e2, e1 in (("full", True, True), ("lt58", False, True), ("lt45", False, False)):
                for mppt in (False, True):
                    for b2 in (False, True):
                        out.append(dict(sp=sp, pvf=pvf, lvl=lvl, e2=e2, e1=e1, mppt=mppt, b2=b2))
    return out


def _apply_et_state(inv, st):
    from goodwe.et import ET
    s = ET._ET__all_sensors
    if st["pvf"]:
        s = tuple(x for x in s if 'pv4' not in x.id_)
        s = tuple(x for x in s if 'pv3' not in x.id_)
    if st["sp"]:
        s = tuple(filter(ET._single_phase_only, s))
    m = ET._ET__all_sensors_meter
    if st["sp"]:
        m = tuple(filter(ET._single_phase_only, m))
    if st["lvl"] == "lt58":
        m = tuple(filter(ET._not_extended_meter2, m))
    if st["lvl"] == "lt45":
        m = tuple(filter(ET._not_extended_meter, m))
    inv._sensors, inv._sensors_meter = s, m
    inv._has_meter_extended2, inv._has_meter_extended = st["e2"], st["e1"]
    inv._has_mppt, inv._has_battery2 = st["mppt"], st["b2"]


def replay_runtime(family, state, script, check, fill=0, sensors_first=False):
    """two read_runtime_data() calls from an invariant state with the transport outcomes of the witness"""
    inv = make_inverter(family, 0)
    if family == "ET":
        _apply_et_state(inv, _et_states()[state])
    elif family == "DT":
        from goodwe.dt import DT
        combos = []
        for sp in (0, 1):
            for pv2 in (0, 1):
                for meter in (True, False):
                    combos.append((sp, pv2, meter))
        sp, pv2, meter = combos[state]
        s = tuple(filter(DT._single_phase_only, DT._DT__all_sensors)) if sp else DT._DT__all_sensors
        if pv2:
            s = tuple(filter(DT._pv1_pv2_only, s))
        inv._sensors, inv._has_meter = s, meter
    script = list(script)
    pos = [0]
    log = []
    used = set()
    keyed = bool(script) and all(s.get("request") for s in script)

    def next_step(command):
        """the scripted outcome of this request: matched by request bytes when the witness has them (the native run
        may take other branches than the symbolic path where values are not tied to the payload, e.g. skip the
        battery block), else by position"""
        if keyed:
            rq = bytes(command.request).hex()
            for i, s in enumerate(script):
                if i not in used and s["request"] == rq:
                    used.add(i)
                    return s
            same = [s for s in script if s["request"] == rq]
            return same[-1] if same else {"kind": "return", "payload": bytes([fill]) * 250}
        step = script[pos[0]] if pos[0] < len(script) else {"kind": "return", "payload": bytes(250)}
        pos[0] += 1
        return step

    async def stub(command):
        log.append(request_kind(command))
        step = next_step(command)
        if step["kind"] == "raise":
            if step["cls"] == "RequestRejectedException":
                raise RequestRejectedException(step.get("message", ""))
            raise RequestFailedException(step.get("message", ""), 1)
        payload = bytes(step["payload"])
        if fill:
            payload = bytes(b or fill for b in payload)
        need = 2 * command.value if hasattr(command, "value") and isinstance(command.value, int) else len(payload)
        payload = (payload + bytes(need))[:max(need, 0)] if need else payload
        return ProtocolResponse(frame_around(command, payload), command)
    inv._read_from_socket = stub
    if sensors_first:
        inv.sensors()
    calls = []
    for k in (1, 2):
        try:
            data = asyncio.run(inv.read_runtime_data())
            want = sorted(set(s.id_ for s in inv.sensors()))
            calls.append({"ok": True, "keys_equal": sorted(set(data.keys())) == want,
                          "missing": sorted(set(want) - set(data))[:5], "extra": sorted(set(data) - set(want))[:5]})
        except BaseException as e:      # noqa
            calls.append({"ok": False, "raised": repr(e)[:100], "rejected": isinstance(e, RequestRejectedException)})
    out = {"calls": calls, "requests": log}
    if check.startswith("C15_keys_equal_sensors"):
        out["violates"] = any(c["ok"] and not c["keys_equal"] for c in calls)
    elif check.startswith("C15_succeeds_by_second_call"):
        out["violates"] = not calls[0]["ok"] and not calls[1]["ok"]
    elif check.startswith("C15_only_refusal"):
        out["violates"] = any((not c["ok"]) and not c.get("rejected") for c in calls)
    elif check.startswith("C18_only_read"):
        out["violates"] = any(k == "write" for k in log)
    else:
        out["violates"] = False
        out["note"] = "check not re-evaluated natively"
    return out


# ---- C20: shared state ---------------------------------------------------------------------------------------------------------
def _shared_snapshot():
    import goodwe
    import importlib
    import pkgutil
    snap = {}
    skip_cls = ("EcoModeV1", "EcoModeV2", "Schedule", "PeakShavingMode")

    def rec(path, o, depth):
        if depth > 3:
            return
        if isinstance(o, dict):
            snap[path] = sorted((repr(k), type(v).__name__, id(v)) for k, v in o.items())
            for k, v in o.items():
                rec(f"{path}[{k!r}]", v, depth + 1)
        elif isinstance(o, (list, set)):
            snap[path] = sorted(repr(type(x).__name__) + str(id(x)) for x in o)
        elif isinstance(o, tuple):
            for i, x in enumerate(o):
                rec(f"{path}[{i}]", x, depth + 1)
        elif type(o).__module__.startswith("goodwe") and hasattr(o, "__dict__") and not isinstance(o, type):
            if type(o).__name__ in skip_cls:
                return
            snap[path] = sorted((k, repr(v)[:60]) for k, v in vars(o).items() if not callable(v))
    for m in pkgutil.iter_modules(goodwe.__path__):
        mod = importlib.import_module("goodwe." + m.name)
        for k, v in vars(mod).items():
            if k == "_modbus_tcp_tx" or k.startswith("__"):
                continue
            if isinstance(v, type) and v.__module__.startswith("goodwe"):
                for kk, vv in vars(v).items():
                    if not callable(vv) and not kk.startswith("__"):
                        rec(f"{mod.__name__}.{k}.{kk}", vv, 0)
            elif not isinstance(v, type) and not callable(v) and not hasattr(v, "__path__") and type(v).__name__ != "module":
                if isinstance(v, (int, str, float, bytes, type(None))):
                    snap[f"{mod.__name__}.{k}"] = repr(v)
                else:
                    rec(f"{mod.__name__}.{k}", v, 0)
    return snap


def replay_shared(family, method, args, script, variant):
    """run the call on one object and compare everything reachable from classes / modules before and after"""
    before = _shared_snapshot()
    inv = make_inverter(family, variant)
    out = run_scripted(inv, method, list(args), list(script))
    after = _shared_snapshot()
    changed = [k for k in set(before) | set(after) if before.get(k) != after.get(k)]
    out["changed_shared_state"] = sorted(changed)[:10]
    out["violates"] = bool(changed)
    return out
