"""Native (CPython, real code) re-evaluation of the row obligations of pyvc.sensor_harness — used to replay solver
witnesses and as an exhaustive back end.  Pure stdlib; imported by pyvc.native under /venv/bin/python."""
import io

from contracts import sensor as cs


class _LoggingBytesIO(io.BytesIO):
    def __init__(self, data):
        super().__init__(data)
        self.log = []

    def read(self, size=-1):
        pos = self.tell()
        r = super().read(size)
        self.log.append((pos, size, len(r)))
        return r


def make_response(payload, kind, first):
    from goodwe.protocol import ProtocolResponse, ModbusRtuProtocolCommand, ProtocolCommand
    resp = ProtocolResponse.__new__(ProtocolResponse)
    if kind == "modbus":
        cmd = ModbusRtuProtocolCommand.__new__(ModbusRtuProtocolCommand)
        cmd.first_address = first
    else:
        cmd = ProtocolCommand.__new__(ProtocolCommand)
    resp.command = cmd
    resp.raw_data = payload
    resp._bytes = _LoggingBytesIO(payload)
    return resp


def _snapshot():
    snap = {}
    for tn, rows in cs.sensor_tables().items():
        for r in rows:
            snap[id(r)] = (r, dict(vars(r)))
    return snap


def _same(a, b):
    if a is None or b is None:
        return a is b
    try:
        return a == b and not (isinstance(a, bool) != isinstance(b, bool))
    except Exception:      # noqa
        return a is b


def replay_row(table, sid, payload, first, clause):
    """re-run one row on a concrete payload and re-evaluate one clause of pyvc.sensor_harness.table_rows"""
    rows = cs.sensor_tables()[table]
    s = [r for r in rows if r.id_ == sid][0]
    kind = cs.table_kind(table)
    cls = type(s).__name__
    before = _snapshot()
    resp = make_response(bytes(payload), kind, first)
    raised = None
    v = None
    try:
        v = s.read(resp)
    except Exception as e:      # noqa
        raised = e
    out = {"raised": None if raised is None else f"{type(raised).__name__}: {raised}", "value": repr(v)[:200]}
    if clause.startswith("C11"):
        out["violates"] = raised is not None and not isinstance(raised, ValueError)
        if not out["violates"]:
            # the refutation may rest on an uninterpreted float operation: try the special bit patterns at the row
            p = (s.offset - first) * 2 if kind == "modbus" else s.offset
            base = bytearray(payload) + bytearray(max(0, p + 16 - len(payload)))
            for pat in (b"\x7f\x80\x00\x00", b"\xff\x80\x00\x00", b"\x7f\xc0\x00\x00", b"\xff" * 8, b"\x80" + b"\x00" * 7,
                        b"\x7f" + b"\xff" * 7):
                if p < 0:
                    break
                b2 = bytearray(base)
                b2[p:p + len(pat)] = pat
                try:
                    s.read(make_response(bytes(b2), kind, first))
                except ValueError:
                    continue
                except Exception as e:      # noqa
                    out.update(violates=True, raised=f"{type(e).__name__}: {e}", payload=bytes(b2).hex(),
                               found_by="special bit patterns at the row's registers")
                    break
        return out
    if clause.startswith("C20_F1"):
        changed = []
        for rid, (r, old) in before.items():
            now = vars(r)
            for k in set(old) | set(now):
                if old.get(k, None) is not now.get(k, None) and old.get(k, None) != now.get(k, None):
                    changed.append(f"{r.id_}.{k}")
        out["changed"] = changed[:10]
        out["violates"] = bool(changed)
        # put the definitions back, this process may run further replays
        for rid, (r, old) in before.items():
            vars(r).clear()
            vars(r).update(old)
        return out
    if clause.startswith("C20_F2"):
        out["violates"] = any(v is r for rid, (r, _) in before.items())
        return out
    spec = cs.CLASS_SPECS.get(cls)
    p = (s.offset - first) * 2 if kind == "modbus" else s.offset
    if spec is None or p < 0 or p + spec[0] > len(payload):
        out["violates"] = False
        out["note"] = "outside the window the clause speaks about"
        return out
    w = spec[0]
    if clause.startswith("C12_C14_reads"):
        bad = [(pos, size) for pos, size, got in resp._bytes.log if pos < p or pos + size > p + w]
        out["bad_reads"] = bad
        out["violates"] = bool(bad)
        return out
    if clause.startswith("C12_value") and spec[1] is not None:
        if raised is not None:
            out["violates"] = True
            return out
        ref = spec[1](bytes(payload[p:p + w]), s)
        out["ref"] = repr(ref)
        out["violates"] = not _same(v, ref)
        return out
    out["violates"] = False
    out["note"] = "clause not re-evaluated natively"
    return out


def replay_single(table, sid, payload, first, clause):
    """C16: single read (read_value on exactly the requested registers) against the bulk read"""
    rows = cs.sensor_tables()[table]
    s = [r for r in rows if r.id_ == sid][0]
    kind = cs.table_kind(table)
    nbytes = 2 * ((s.size_ + 1) // 2)
    p = (s.offset - first) * 2 if kind == "modbus" else s.offset
    payload = bytes(payload)
    out = {}
    if clause.startswith("C16_read_value_is_implemented"):
        try:
            s.read_value(make_response(bytes(16), "modbus", s.offset))
        except NotImplementedError:
            return {"violates": True, "detail": f"{type(s).__name__}.read_value raises NotImplementedError"}
        except Exception:      # noqa
            pass
        return {"violates": False}
    if p < 0 or p + nbytes > len(payload):
        # the witness block is cut off by the size cap of witnesses: rebuild a block that starts at the row
        first = s.offset
        p = 0
        payload = (payload + bytes(64))[:max(nbytes, 16)]
    bulk_exc = single_exc = None
    bulk = single = None
    try:
        bulk = s.read(make_response(payload, kind, first))
    except Exception as e:      # noqa
        bulk_exc = e
    resp2 = make_response(payload[p:p + nbytes], "modbus", s.offset)
    try:
        single = s.read_value(resp2)
    except BaseException as e:      # noqa
        single_exc = e
    out.update(bulk=repr(bulk)[:100], single=repr(single)[:100], bulk_exc=repr(bulk_exc), single_exc=repr(single_exc))
    if clause.startswith("C16_read_value_is_implemented"):
        out["violates"] = isinstance(single_exc, NotImplementedError)
    elif clause.startswith("C16_single_read_stays"):
        bad = [(pos, size) for pos, size, got in resp2._bytes.log if pos + size > nbytes]
        out["bad_reads"] = bad
        out["violates"] = bool(bad)
    else:
        if isinstance(single_exc, NotImplementedError):
            out["violates"] = False
        elif bulk_exc is not None:
            out["violates"] = not isinstance(single_exc, ValueError)
        else:
            out["violates"] = single_exc is not None or not _same(single, bulk)
    return out


def replay_window(first, count, sid):
    """C14: decode row `sid` from a full-length answer of the block (first, count) with an instrumented reader"""
    from goodwe.protocol import ModbusRtuReadCommand, ProtocolResponse
    nbytes = 2 * count
    out = {"violates": False, "rows": []}
    for tn, rows in cs.sensor_tables().items():
        if tn.startswith("ES."):
            continue
        for s in rows:
            if s.id_ != sid:
                continue
            cmd = ModbusRtuReadCommand(0xf7, first, count)
            resp = ProtocolResponse.__new__(ProtocolResponse)
            resp.command = cmd
            resp.raw_data = b""
            resp._bytes = _LoggingBytesIO(bytes((i * 7 + 1) % 251 for i in range(nbytes)))
            try:
                s.read(resp)
            except ValueError:
                pass
            short = [(pos, size, got) for pos, size, got in resp._bytes.log if got < size or pos + size > nbytes]
            if short and any(first <= s.offset < first + 200 for _ in (0,)):
                out["violates"] = True
                out["rows"].append({"table": tn, "class": type(s).__name__, "offset": s.offset, "short_reads": short})
    return out
