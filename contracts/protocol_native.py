"""Native replay of transport state-machine obligations on the real protocol classes with a real event loop and
stub transports (no sockets)."""
import asyncio
from unittest import mock

from goodwe.exceptions import (PartialResponseException, RequestRejectedException, RequestFailedException,
                               MaxRetriesException, InverterError)
from goodwe.protocol import UdpInverterProtocol, TcpInverterProtocol, ProtocolCommand


def _cls(kind):
    return UdpInverterProtocol if kind == "udp" else TcpInverterProtocol


def _future(loop, fstate):
    if fstate is None or fstate < 0:
        return None
    f = loop.create_future()
    if fstate == 1:
        f.set_result(b"old")
    elif fstate == 2:
        f.set_exception(OSError("old"))
        f.exception()
    elif fstate == 3:
        f.cancel()
    return f


def replay_callback(kind, which, retry, retries, fstate, validator, check):
    """run one callback on a real protocol object prepared in the witness state"""
    loop = asyncio.new_event_loop()
    out = {}

    def validator_fn(data):
        if validator == "True":
            return True
        if validator == "False":
            return False
        if validator == "Partial":
            raise PartialResponseException(len(data), len(data) + 3)
        raise RequestRejectedException("ILLEGAL DATA ADDRESS")

    async def go():
        P = _cls(kind)("127.0.0.1", 8899, 0xf7, 1, retries)
        P._retry = retry
        fut = _future(loop, fstate)
        P.response_future = fut
        P.command = ProtocolCommand(b"request", validator_fn)
        P._transport = mock.Mock()
        P._timer = None
        handle = None
        if check.startswith("C04_C05_C07_no_armed_timeout_is_forgotten"):
            handle = loop.call_later(1000, lambda: None)       # the timeout of the attempt in flight, still armed
            P._timer = handle
        before = fut.done() if fut is not None else None
        args = {"datagram_received": (b"\x01\x02\x03\x04\x05\x06\x07", ("h", 1)), "data_received": (b"\x01\x02\x03\x04\x05\x06\x07",),
                "error_received": (OSError(113, "EHOSTUNREACH"),), "connection_lost": (None,), "eof_received": (),
                "_timeout_mechanism": ()}[which]
        try:
            getattr(P, which)(*args)
        except BaseException as e:      # noqa
            out["raised"] = repr(e)
        out["retry_after"] = P._retry
        out["got_result"] = bool(fut is not None and not before and fut.done() and not fut.cancelled()
                                 and fut.exception() is None)
        out["sent"] = P._transport.sendto.call_count + P._transport.write.call_count
        if handle is not None:
            out["forgotten_while_armed"] = (P._timer is not handle) and not handle.cancelled()
            handle.cancel()
        if fut is not None and fut.done() and not fut.cancelled():
            fut.exception()
    try:
        loop.run_until_complete(go())
        loop.run_until_complete(asyncio.sleep(0))
    finally:
        loop.close()
    if check.startswith("C09_callback_raises_nothing"):
        out["violates"] = "raised" in out
    elif check.startswith("C04_C05_callback_does_not_refill_retry_budget"):
        out["violates"] = out.get("retry_after") != retry and not (out.get("got_result") and out.get("retry_after") == 0)
    elif check.startswith("C04_C05_C07_no_armed_timeout_is_forgotten"):
        out["violates"] = bool(out.get("forgotten_while_armed"))
    elif check.startswith("C04_callback_does_not_transmit"):
        out["violates"] = out.get("sent", 0) > 0
    else:
        out["violates"] = False
        out["note"] = "obligation not re-evaluated natively"
    return out


class _Peer:
    """scripted peer behind a stub transport: per transmission one of 'silent', 'answer', 'reject', 'error'"""

    def __init__(self, loop, proto, script, kind):
        self.loop, self.proto, self.script, self.kind = loop, proto, list(script), kind
        self.sent = []
        self.closed = 0

    def is_closing(self):
        return False

    def close(self):
        self.closed += 1

    def get_extra_info(self, *a, **k):
        return None

    def _send(self, payload):
        self.sent.append(bytes(payload))
        step = self.script.pop(0) if self.script else "silent"
        if step == "answer":
            self.loop.call_soon(self._deliver, b"ANSWER")
        elif step == "reject":
            self.loop.call_soon(self._deliver, b"REJECT")
        elif step == "error":
            self.loop.call_soon(self.proto.error_received, OSError(113, "EHOSTUNREACH"))
        elif step == "senderror" and self.kind == "udp":
            # asyncio's datagram transport reports a failing socket.send() synchronously, inside sendto()
            self.proto.error_received(OSError(101, "ENETUNREACH"))

    def _deliver(self, data):
        if self.kind == "udp":
            self.proto.datagram_received(data, ("h", 1))
        else:
            self.proto.data_received(data)

    sendto = lambda self, payload, addr=None: self._send(payload)      # noqa
    write = lambda self, payload: self._send(payload)      # noqa


def run_requests(kind, retries, keep_alive, scripts, timeout=0.01):
    """issue len(scripts) consecutive requests through ProtocolCommand.execute; returns per request the outcome, the
    number of transmissions and the value of _retry afterwards"""
    loop = asyncio.new_event_loop()
    results = []
    unhandled = []
    loop.set_exception_handler(lambda l, ctx: unhandled.append(repr(ctx.get("exception"))))

    def validator(data):
        if data == b"REJECT":
            raise RequestRejectedException("ILLEGAL DATA ADDRESS")
        return data == b"ANSWER"

    async def go():
        P = _cls(kind)("127.0.0.1", 8899, 0xf7, timeout, retries)
        P.keep_alive = keep_alive
        peers = []

        async def connect():
            if not P._transport or P._transport.is_closing():
                t = _Peer(loop, P, [], kind)
                P._transport = t
                peers.append(t)
        P._connect = connect
        for script in scripts:
            cmd = ProtocolCommand(b"request", validator)
            n0 = sum(len(p.sent) for p in peers)
            # the script of this request is consumed by whatever transports it uses
            pending = list(script)

            async def connect2():
                if not P._transport or P._transport.is_closing():
                    t = _Peer(loop, P, pending, kind)
                    t.script = pending
                    P._transport = t
                    peers.append(t)
                else:
                    P._transport.script = pending
            P._connect = connect2
            rec = {}
            try:
                r = await cmd.execute(P)
                rec["outcome"] = "response"
            except BaseException as e:      # noqa
                rec["outcome"] = type(e).__name__
                rec["is_inverter_error"] = isinstance(e, InverterError)
            rec["transmissions"] = sum(len(p.sent) for p in peers) - n0
            rec["retry_after"] = P._retry
            results.append(rec)
    try:
        loop.run_until_complete(asyncio.wait_for(go(), 20))
    finally:
        loop.close()
    return {"requests": results, "unhandled_in_callbacks": unhandled}


def replay_exit(kind, retries, keep_alive, check):
    """canned fault scripts exercising the exits of send_request / execute"""
    retries = max(0, min(int(retries), 3))
    scripts = [["silent"] * (retries + 1), ["answer"]], [["reject"], ["silent"] * (retries + 1)], \
        [["silent", "reject"], ["silent"] * (retries + 1)], [["error"], ["answer"]], [["answer"], ["answer"]], \
        [["senderror"], ["answer"]]
    out = {"runs": []}
    bad = False
    for sc in scripts:
        r = run_requests(kind, retries, bool(keep_alive), sc)
        out["runs"].append({"script": sc, "result": r})
        for i, req in enumerate(r["requests"]):
            if check.startswith("C05_retry_budget_restored"):
                bad |= req["retry_after"] != 0
            elif check.startswith("C04_"):
                bad |= req["transmissions"] > retries + 1
            elif check.startswith("C09_execute_raises_only") or check.startswith("C09_send_request"):
                bad |= req["outcome"] != "response" and not req.get("is_inverter_error")
        if check.startswith("C09_callback"):
            bad |= bool(r["unhandled_in_callbacks"])
    out["violates"] = bool(bad)
    return out


def ground_c08():
    """ground facts of C08: the constant the inverter classes compare with, that every comparison uses it, and that
    a RequestRejectedException is not caught on the way from the future to the public call"""
    import ast
    import glob
    import os
    import goodwe
    from goodwe import modbus
    failures = []
    obligations = [{"name": "C08_constant_text_is_illegal_data_address", "backend": "ground"},
                   {"name": "C08_every_comparison_uses_the_constant", "backend": "ground"},
                   {"name": "C08_rejection_not_caught_below_the_public_call", "backend": "ground"}]
    if modbus.ILLEGAL_DATA_ADDRESS != "ILLEGAL DATA ADDRESS" or modbus.FAILURE_CODES.get(2) != "ILLEGAL DATA ADDRESS":
        failures.append({"obligation": obligations[0]["name"], "value": modbus.ILLEGAL_DATA_ADDRESS})
    cases = 1
    root = os.path.dirname(goodwe.__file__)
    for path in sorted(glob.glob(os.path.join(root, "*.py"))):
        tree = ast.parse(open(path).read())
        for n in ast.walk(tree):
            if isinstance(n, ast.Compare) and isinstance(n.left, ast.Attribute) and n.left.attr == "message":
                cases += 1
                ok = all(isinstance(c, ast.Name) and c.id == "ILLEGAL_DATA_ADDRESS" for c in n.comparators)
                if not ok:
                    failures.append({"obligation": obligations[1]["name"], "file": os.path.basename(path), "line": n.lineno})
    # handlers between the future and the caller: send_request, execute, _read_from_socket
    from goodwe.exceptions import RequestRejectedException
    for fname, funcs in (("protocol.py", ("send_request", "execute")), ("inverter.py", ("_read_from_socket",))):
        tree = ast.parse(open(os.path.join(root, fname)).read())
        ns = {}
        exec("import asyncio\nfrom goodwe.exceptions import *", ns)
        for n in ast.walk(tree):
            if isinstance(n, ast.AsyncFunctionDef) and n.name in funcs:
                for h in ast.walk(n):
                    if isinstance(h, ast.ExceptHandler):
                        cases += 1
                        if h.type is None:
                            caught = True
                        else:
                            t = eval(compile(ast.Expression(h.type), "<h>", "eval"), ns)
                            t = t if isinstance(t, tuple) else (t,)
                            caught = any(issubclass(RequestRejectedException, c) for c in t)
                        reraises = any(isinstance(x, ast.Raise) and x.exc is None for x in ast.walk(h))
                        if caught and not reraises:
                            failures.append({"obligation": obligations[2]["name"], "file": fname, "function": n.name,
                                             "line": h.lineno})
    for o in obligations:
        o["cases"] = cases
    return {"cases": cases, "exhaustive": True, "failures": failures, "obligations": obligations}


# ---- C01: validator binding of the command classes -----------------------------------------------------------------------------
def replay_binding(cls, comm_addr, offset, value, values, data, check=""):
    """the solver's byte string (and checksum-repaired variants of it), then a native search: well-formed answers to
    *other* operations (other function code, register, value / count, AA55 response type) handed to the validator of
    the command built from the given arguments.  violates = something is accepted that is not a well-formed answer
    to this very request (independent spec wf_rtu / wf_tcp / wf_aa55)."""
    import goodwe.protocol as gp
    from goodwe.exceptions import PartialResponseException, RequestRejectedException
    from contracts.modbus import wf_rtu, wf_tcp, _fix_crc_rtu
    from contracts.protocol_cmd import wf_aa55, _fix_sum
    from pyvc.spec import CRC16
    aa55, multi, read = cls.startswith("Aa55"), "Multi" in cls, "Read" in cls
    values = bytes(values or b"")
    if multi and not values:
        values = bytes(8 if aa55 else 2)
    args = ([] if aa55 else [comm_addr]) + [offset] + ([values] if multi else [value])
    cmd = getattr(gp, cls)(*args)
    val = len(values) // 2 if multi else value
    fn = 3 if read else (16 if multi else 6)

    def wf(d):
        if aa55:
            return wf_aa55(d, "019A" if read else "02B9")
        return wf_rtu(d, fn, offset, val) if "Rtu" in cls else wf_tcp(d, fn, offset, val)

    def rtu(f, payload):
        body = bytes([comm_addr & 0xFF, f]) + payload
        c = CRC16(body)
        return b"\xaa\x55" + body + bytes([c & 0xFF, c >> 8])

    def tcp(f, payload):
        return b"\x00\x01\x00\x00" + (len(payload) + 2).to_bytes(2, "big") + bytes([comm_addr & 0xFF, f]) + payload

    def aa(rt, payload):
        body = b"\xaa\x55\x7f\xc0" + bytes.fromhex(rt) + bytes([len(payload)]) + payload
        return body + (sum(body) & 0xFFFF).to_bytes(2, "big")
    cands = []
    d0 = bytes(data or b"")
    if d0:
        cands.append(d0)
        cands += list(_fix_sum(d0) if aa55 else (_fix_crc_rtu(d0) if "Rtu" in cls else []))
    if aa55:
        for rt in ("019A", "02B9", "0182", "0186", "0189", "039D", "0239", "011A"):
            for n in (0, 1, 2, 8, 2 * max(val, 1)):
                cands.append(aa(rt, bytes(n)))
    else:
        mk = rtu if "Rtu" in cls else tcp
        for c in (1, 2, max(val, 1), max(val, 1) + 1, 125):
            cands.append(mk(3, bytes([2 * c & 0xFF]) + bytes(2 * c)))
        for f in (6, 16):
            for o in (offset, offset ^ 1, 0):
                for v in (val, val + 1, 0, -1, 1):
                    cands.append(mk(f, o.to_bytes(2, "big") + (v & 0xFFFF).to_bytes(2, "big")))
    # well-formed answers to this very request (C02 direction)
    if aa55:
        good = [aa("019A" if read else "02B9", bytes(n)) for n in (0, 2, 2 * max(val, 1), 250, 255)]
        good.append(aa("019A" if read else "02B9", b"\xff" * 255))
    else:
        mk = rtu if "Rtu" in cls else tcp
        good = ([mk(3, bytes([2 * val]) + bytes(2 * val)), mk(3, bytes([2 * val]) + b"\xff" * (2 * val))] if read else
                [mk(fn, offset.to_bytes(2, "big") + (val & 0xFFFF).to_bytes(2, "big"))])
    out = {"candidates": len(cands) + len(good), "violates": False}
    for d in cands + good:
        try:
            acc = cmd.validator(d) is True
            why = "returned False"
        except (PartialResponseException, RequestRejectedException) as e:
            acc = False
            why = "raised " + type(e).__name__
        except Exception as e:      # noqa
            out.update(violates=True, data=d, raised=repr(e)[:100])
            return out
        if acc and not wf(d) and not check.startswith("C02_"):
            out.update(violates=True, data=d, accepted_but_not_wellformed=True)
            return out
        if not acc and wf(d) and check.startswith("C02_"):
            out.update(violates=True, data=d, wellformed_but_not_accepted=why)
            return out
    return out


def replay_timer_delay(kind):
    """every timeout the protocol object arms (call_later / call_at of _timeout_mechanism) is due one configured
    timeout after the moment it is armed.  Real event loop, two concurrent callers; the peer answers after 0.6 of the
    timeout and connecting takes 0.25 of it, so time passes between entering send_request and transmitting."""
    T = 0.2
    loop = asyncio.new_event_loop()
    delays = []
    orig_later, orig_at = loop.call_later, loop.call_at

    def is_timeout(cb):
        return getattr(cb, "__name__", "") == "_timeout_mechanism"

    def call_later(delay, cb, *a, **k):
        if is_timeout(cb):
            delays.append(delay)
        return orig_later(delay, cb, *a, **k)

    def call_at(when, cb, *a, **k):
        if is_timeout(cb):
            delays.append(when - loop.time())
        return orig_at(when, cb, *a, **k)
    loop.call_later, loop.call_at = call_later, call_at

    async def go():
        P = _cls(kind)("127.0.0.1", 8899, 0xf7, T, 1)
        P.keep_alive = True

        class Slow(_Peer):
            def _send(self, payload):
                self.sent.append(bytes(payload))
                orig_later(0.6 * T, self._deliver, b"ANSWER")
        peer = Slow(loop, P, [], kind)

        async def connect():
            await asyncio.sleep(0.25 * T)
            if not P._transport:
                P._transport = peer
        P._connect = connect
        cmds = [ProtocolCommand(b"request%d" % i, lambda d: d == b"ANSWER") for i in range(2)]
        return await asyncio.gather(*[c.execute(P) for c in cmds], return_exceptions=True)
    try:
        res = loop.run_until_complete(asyncio.wait_for(go(), 20))
    finally:
        loop.close()
    bad = [d for d in delays if abs(d - T) > 0.1 * T]
    return {"timeout": T, "delays_when_armed": delays, "outcomes": [type(r).__name__ for r in res],
            "violates": bool(bad)}


def replay_fragment_cleared(kind):
    """at every transmission the fragment state of the previous one is gone: keep-alive on and off, the peer answers the
    first transmission with a lone fragment (validator: PartialResponseException), stays silent, and the state is
    inspected when the retransmission (and the next request) goes out"""
    out = {"runs": [], "violates": False}
    for keep_alive in (True, False):
        loop = asyncio.new_event_loop()
        seen = []

        def validator(data):
            if data == b"FRAG":
                raise PartialResponseException(len(data), len(data) + 7)
            return data == b"ANSWER"

        async def go():
            P = _cls(kind)("127.0.0.1", 8899, 0xf7, 0.02, 1)
            P.keep_alive = keep_alive

            class Frag(_Peer):
                def _send(self, payload):
                    self.sent.append(bytes(payload))
                    seen.append({"partial_data": P._partial_data, "partial_missing": P._partial_missing})
                    step = self.script.pop(0) if self.script else "silent"
                    if step == "frag":
                        self.loop.call_soon(self._deliver, b"FRAG")
                    elif step == "answer":
                        self.loop.call_soon(self._deliver, b"ANSWER")
            script = ["frag", "silent", "frag", "answer"]

            async def connect():
                if not P._transport or P._transport.is_closing():
                    P._transport = Frag(loop, P, script, kind)
                    P._transport.script = script
            P._connect = connect
            res = []
            for i in range(3):
                try:
                    await ProtocolCommand(b"request", validator).execute(P)
                    res.append("response")
                except BaseException as e:      # noqa
                    res.append(type(e).__name__)
            return res
        try:
            res = loop.run_until_complete(asyncio.wait_for(go(), 20))
        finally:
            loop.close()
        dirty = [s for s in seen if s["partial_data"] is not None or s["partial_missing"] != 0]
        out["runs"].append({"keep_alive": keep_alive, "outcomes": res, "transmissions": len(seen),
                            "fragment_state_at_transmissions": [repr(s) for s in seen]})
        out["violates"] |= bool(dirty)
    return out


def replay_fresh_stamp(kind):
    """every transmission sends the result of a request_bytes() call of its own: a command whose request_bytes()
    numbers its calls, a silent peer (so that the request is retransmitted), the same command object sent twice"""
    out = {"violates": False, "runs": []}
    for keep_alive in (True, False):
        loop = asyncio.new_event_loop()
        stamps, sent = [], []

        class Cmd(ProtocolCommand):
            def request_bytes(self):
                stamps.append(b"wire#%d" % len(stamps))
                return stamps[-1]

        async def go():
            P = _cls(kind)("127.0.0.1", 8899, 0xf7, 0.02, 2)
            P.keep_alive = keep_alive

            class Silent(_Peer):
                def _send(self, payload):
                    self.sent.append(bytes(payload))
                    sent.append((bytes(payload), stamps[-1] if stamps else None))

            async def connect():
                if not P._transport or P._transport.is_closing():
                    P._transport = Silent(loop, P, [], kind)
            P._connect = connect
            cmd = Cmd(b"template", lambda d: d == b"ANSWER")
            for i in range(2):
                try:
                    await cmd.execute(P)
                except BaseException:      # noqa
                    pass
        try:
            loop.run_until_complete(asyncio.wait_for(go(), 20))
        finally:
            loop.close()
        payloads = [p for p, s in sent]
        bad = [i for i, (p, s) in enumerate(sent) if p != s] or (len(set(payloads)) != len(payloads))
        out["runs"].append({"keep_alive": keep_alive, "sent": [p.decode() for p in payloads]})
        out["violates"] |= bool(bad)
    return out
