"""Native replay of transport state-machine obligations on the real protocol classes with a real event loop and
stub transports (no sockets)."""
import asyncio
from unittest import mock

from goodwe.exceptions import (PartialResponseException, RequestRejectedException, RequestFailedException,
                               MaxRetriesException, InverterError)
from goodwe.protocol import UdpInverterProtocol, TcpInverterProtocol, ProtocolCommand


def _cls(kind):
    return UdpInverterProtocol if kind == "udp" else TcpInverterProtocol


def _future(loop, fstate):
    if fstate is None or fstate < 0:
        return None
    f = loop.create_future()
    if fstate == 1:
        f.set_result(b"old")
    elif fstate == 2:
        f.set_exception(OSError("old"))
        f.exception()
    elif fstate == 3:
        f.cancel()
    return f


def replay_callback(kind, which, retry, retries, fstate, validator, check):
    """run one callback on a real protocol object prepared in the witness state"""
    loop = asyncio.new_event_loop()
    out = {}

    def validator_fn(data):
        if validator == "True":
            return True
        if validator == "False":
            return False
        if validator == "Partial":
            raise PartialResponseException(len(data), len(data) + 3)
        raise RequestRejectedException("ILLEGAL DATA ADDRESS")

    async def go():
        P = _cls(kind)("127.0.0.1", 8899, 0xf7, 1, retries)
        P._retry = retry
        fut = _future(loop, fstate)
        P.response_future = fut
        P.command = ProtocolCommand(b"request", validator_fn)
        P._transport = mock.Mock()
        P._timer = None
        handle = None
        if check.startswith("C04_C05_C07_no_armed_timeout_is_forgotten"):
            handle = loop.call_later(1000, lambda: None)       # the timeout of the attempt in flight, still armed
            P._timer = handle
        before = fut.done() if fut is not None else None
        args = {"datagram_received": (b"\x01\x02\x03\x04\x05\x06\x07", ("h", 1)), "data_received": (b"\x01\x02\x03\x04\x05\x06\x07",),
                "error_received": (OSError(113, "EHOSTUNREACH"),), "connection_lost": (None,), "eof_received": (),
                "_timeout_mechanism": ()}[which]
        try:
            getattr(P, which)(*args)
        except BaseException as e:      # noqa
            out["raised"] = repr(e)
        out["retry_after"] = P._retry
        out["got_result"] = bool(fut is not None and not before and fut.done() and not fut.cancelled()
                                 and fut.exception() is None)
        out["sent"] = P._transport.sendto.call_count + P._transport.write.call_count
        if handle is not None:
            out["forgotten_while_armed"] = (P._timer is not handle) and not handle.cancelled()
            handle.cancel()
        if fut is not None and fut.done() and not fut.cancelled():
            fut.exception()
    try:
        loop.run_until_complete(go())
        loop.run_until_complete(asyncio.sleep(0))
    finally:
        loop.close()
    if check.startswith("C09_callback_raises_nothing"):
        out["violates"] = "raised" in out
    elif check.startswith("C04_C05_callback_does_not_refill_retry_budget"):
        out["violates"] = out.get("retry_after") != retry and not (out.get("got_result") and out.get("retry_after") == 0)
    elif check.startswith("C04_C05_C07_no_armed_timeout_is_forgotten"):
        out["violates"] = bool(out.get("forgotten_while_armed"))
    elif check.startswith("C04_callback_does_not_transmit"):
        out["violates"] = out.get("sent", 0) > 0
    else:
        out["violates"] = False
        out["note"] = "obligation not re-evaluated natively"
    return out


class _Peer:
    """scripted peer behind a stub transport: per transmission one of 'silent', 'answer', 'reject', 'error'"""

    def __init__(self, loop, proto, script, kind):
        self.loop, self.proto, self.script, self.kind = loop, proto, list(script), kind
        self.sent = []
        self.closed = 0

    def is_closing(self):
        return False

    def close(self):
        self.closed += 1

    def get_extra_info(self, *a, **k):
        return None

    def _send(self, payload):
        self.sent.append(bytes(payload))
        step = self.script.pop(0) if self.script else "silent"
        if step == "answer":
            self.loop.call_soon(self._deliver, b"ANSWER")
        elif step == "reject":
            self.loop.call_soon(self._deliver, b"REJECT")
        elif step == "error":
            self.loop.call_soon(self.proto.error_received, OSError(113, "EHOSTUNREACH"))
        elif step == "senderror" and self.kind == "udp":
            # asyncio's datagram transport reports a failing socket.send() synchronously, inside sendto()
            self.proto.error_received(OSError(101, "ENETUNREACH"))

    def _deliver(self, data):
        if self.kind == "udp":
            self.proto.datagram_received(data, ("h", 1))
        else:
            self.proto.data_received(data)

    sendto = lambda self, payload, addr=None: self._send(payload)      # noqa
    write = lambda self, payload: self._send(payload)      # noqa


def run_requests(kind, retries, keep_alive, scripts, timeout=0.01):
    """issue len(scripts) consecutive requests through ProtocolCommand.execute; returns per request the outcome, the
    number of transmissions and the value of _retry afterwards"""
    loop = asyncio.new_event_loop()
    results = []
    unhandled = []
    loop.set_exception_handler(lambda l, ctx: unhandled.append(repr(ctx.get("exception"))))

    def validator(data):
        if data == b"REJECT":
            raise RequestRejectedException("ILLEGAL DATA ADDRESS")
        return data == b"ANSWER"

    async def go():
        P = _cls(kind)("127.0.0.1", 8899, 0xf7, timeout, retries)
        P.keep_alive = keep_alive
        peers = []

        async def connect():
            if not P._transport or P._transport.is_closing():
                t = _Peer(loop, P, [], kind)
                P._transport = t
                peers.append(t)
        P._connect = connect
        for script in scripts:
            cmd = ProtocolCommand(b"request", validator)
            n0 = sum(len(p.sent) for p in peers)
            # the script of this request is consumed by whatever transports it uses
            pending = list(script)

            async def connect2():
                if not P._transport or P._transport.is_closing():
                    t = _Peer(loop, P, pending, kind)
                    t.script = pending
                    P._transport = t
                    peers.append(t)
                else:
                    P._transport.script = pending
            P._connect = connect2
            rec = {}
            try:
                r = await cmd.execute(P)
                rec["outcome"] = "response"
            except BaseException as e:      # noqa
                rec["outcome"] = type(e).__name__
                rec["is_inverter_error"] = isinstance(e, InverterError)
            rec["transmissions"] = sum(len(p.sent) for p in peers) - n0
            rec["retry_after"] = P._retry
            results.append(rec)
    try:
        loop.run_until_complete(asyncio.wait_for(go(), 20))
    finally:
        loop.close()
    return {"requests": results, "unhandled_in_callbacks": unhandled}


def replay_exit(kind, retries, keep_alive, check):
    """canned fault scripts exercising the exits of send_request / execute"""
    retries = max(0, min(int(retries), 3))
    budget = "retry_budget_restored" in check       # the clause carries the tags of every property that relies on it
    if budget:
        retries = max(retries, 2)                   # histories such as 'silent, then rejected' need a retry to exist
    scripts = [["silent"] * (retries + 1), ["answer"]], [["reject"], ["silent"] * (retries + 1)], \
        [["silent", "reject"], ["silent"] * (retries + 1)], [["error"], ["answer"]], [["answer"], ["answer"]], \
        [["senderror"], ["answer"]]
    out = {"runs": []}
    bad = False
    for sc in scripts:
        r = run_requests(kind, retries, bool(keep_alive), sc)
        out["runs"].append({"script": sc, "result": r})
        for i, req in enumerate(r["requests"]):
            if budget:
                bad |= req["retry_after"] != 0
            elif check.startswith("C04_"):
                bad |= req["transmissions"] > retries + 1
            elif check.startswith("C09_execute_raises_only") or check.startswith("C09_send_request"):
                bad |= req["outcome"] != "response" and not req.get("is_inverter_error")
        if check.startswith("C09_callback"):
            bad |= bool(r["unhandled_in_callbacks"])
    out["violates"] = bool(bad)
    return out


def ground_c08():
    """ground facts of C08: the constant the inverter classes compare with, that every comparison uses it, and that
    a RequestRejectedException is not caught on the way from the future to the public call"""
    import ast
    import glob
    import os
    import goodwe
    from goodwe import modbus
    failures = []
    obligations = [{"name": "C08_constant_text_is_illegal_data_address", "backend": "ground"},
                   {"name": "C08_every_comparison_uses_the_constant", "backend": "ground"},
                   {"name": "C08_rejection_not_caught_below_the_public_call", "backend": "ground"}]
    if modbus.ILLEGAL_DATA_ADDRESS != "ILLEGAL DATA ADDRESS" or modbus.FAILURE_CODES.get(2) != "ILLEGAL DATA ADDRESS":
        failures.append({"obligation": obligations[0]["name"], "value": modbus.ILLEGAL_DATA_ADDRESS})
    cases = 1
    root = os.path.dirname(goodwe.__file__)
    for path in sorted(glob.glob(os.path.join(root, "*.py"))):
        tree = ast.parse(open(path).read())
        for n in ast.walk(tree):
            if isinstance(n, ast.Compare) and isinstance(n.left, ast.Attribute) and n.left.attr == "message":
                cases += 1
                ok = all(isinstance(c, ast.Name) and c.id == "ILLEGAL_DATA_ADDRESS" for c in n.comparators)
                if not ok:
                    failures.append({"obligation": obligations[1]["name"], "file": os.path.basename(path), "line": n.lineno})
    # handlers between the future and the caller: send_request, execute, _read_from_socket
    from goodwe.exceptions import RequestRejectedException
    for fname, funcs in (("protocol.py", ("send_request", "execute")), ("inverter.py", ("_read_from_socket",))):
        tree = ast.parse(open(os.path.join(root, fname)).read())
        ns = {}
        exec("import asyncio\nfrom goodwe.exceptions import *", ns)
        for n in ast.walk(tree):
            if isinstance(n, ast.AsyncFunctionDef) and n.name in funcs:
                for h in ast.walk(n):
                    if isinstance(h, ast.ExceptHandler):
                        cases += 1
                        if h.type is None:
                            caught = True
                        else:
                            t = eval(compile(ast.Expression(h.type), "<h>", "eval"), ns)
                            t = t if isinstance(t, tuple) else (t,)
                            caught = any(issubclass(RequestRejectedException, c) for c in t)
                        reraises = any(isinstance(x, ast.Raise) and x.exc is None for x in ast.walk(h))
                        if caught and not reraises:
                            failures.append({"obligation": obligations[2]["name"], "file": fname, "function": n.name,
                                             "line": h.lineno})
    for o in obligations:
        o["cases"] = cases
    return {"cases": cases, "exhaustive": True, "failures": failures, "obligations": obligations}


# ---- C01: validator binding of the command classes -----------------------------------------------------------------------------
def replay_binding(cls, comm_addr, offset, value, values, data, check=""):
    """the solver's byte string (and checksum-repaired variants of it), then a native search: well-formed answers to
    *other* operations (other function code, register, value / count, AA55 response type) handed to the validator of
    the command built from the given arguments.  violates = something is accepted that is not a well-formed answer
    to this very request (independent spec wf_rtu / wf_tcp / wf_aa55)."""
    import goodwe.protocol as gp
    from goodwe.exceptions import PartialResponseException, RequestRejectedException
    from contracts.modbus import wf_rtu, wf_tcp, _fix_crc_rtu
    from contracts.protocol_cmd import wf_aa55, _fix_sum
    from pyvc.spec import CRC16
    aa55, multi, read = cls.startswith("Aa55"), "Multi" in cls, "Read" in cls
    values = bytes(values or b"")
    if multi and not values:
        values = bytes(8 if aa55 else 2)
    args = ([] if aa55 else [comm_addr]) + [offset] + ([values] if multi else [value])
    cmd = getattr(gp, cls)(*args)
    val = len(values) // 2 if multi else value
    fn = 3 if read else (16 if multi else 6)

    def wf(d):
        if aa55:
            return wf_aa55(d, "019A" if read else "02B9")
        return wf_rtu(d, fn, offset, val) if "Rtu" in cls else wf_tcp(d, fn, offset, val)

    def rtu(f, payload):
        body = bytes([comm_addr & 0xFF, f]) + payload
        c = CRC16(body)
        return b"\xaa\x55" + body + bytes([c & 0xFF, c >> 8])

    def tcp(f, payload):
        return b"\x00\x01\x00\x00" + (len(payload) + 2).to_bytes(2, "big") + bytes([comm_addr & 0xFF, f]) + payload

    def aa(rt, payload):
        body = b"\xaa\x55\x7f\xc0" + bytes.fromhex(rt) + bytes([len(payload)]) + payload
        return body + (sum(body) & 0xFFFF).to_bytes(2, "big")
    cands = []
    d0 = bytes(data or b"")
    if d0:
        cands.append(d0)
        cands += list(_fix_sum(d0) if aa55 else (_fix_crc_rtu(d0) if "Rtu" in cls else []))
    if aa55:
        for rt in ("019A", "02B9", "0182", "0186", "0189", "039D", "0239", "011A"):
            for n in (0, 1, 2, 8, 2 * max(val, 1)):
                cands.append(aa(rt, bytes(n)))
    else:
        mk = rtu if "Rtu" in cls else tcp
        for c in (1, 2, max(val, 1), max(val, 1) + 1, 125):
            cands.append(mk(3, bytes([2 * c & 0xFF]) + bytes(2 * c)))
        for f in (6, 16):
            for o in (offset, offset ^ 1, 0):
                for v in (val, val + 1, 0, -1, 1):
                    cands.append(mk(f, o.to_bytes(2, "big") + (v & 0xFFFF).to_bytes(2, "big")))
    # well-formed answers to this very request (C02 direction)
    if aa55:
        good = [aa("019A" if read else "02B9", bytes(n)) for n in (0, 2, 2 * max(val, 1), 250, 255)]
        good.append(aa("019A" if read else "02B9", b"\xff" * 255))
    else:
        mk = rtu if "Rtu" in cls else tcp
        good = ([mk(3, bytes([2 * val]) + bytes(2 * val)), mk(3, bytes([2 * val]) + b"\xff" * (2 * val))] if read else
                [mk(fn, offset.to_bytes(2, "big") + (val & 0xFFFF).to_bytes(2, "big"))])
    out = {"candidates": len(cands) + len(good), "violates": False}
    for d in cands + good:
        try:
            acc = cmd.validator(d) is True
            why = "returned False"
        except (PartialResponseException, RequestRejectedException) as e:
            acc = False
            why = "raised " + type(e).__name__
        except Exception as e:      # noqa
            out.update(violates=True, data=d, raised=repr(e)[:100])
            return out
        if acc and not wf(d) and not check.startswith("C02_"):
            out.update(violates=True, data=d, accepted_but_not_wellformed=True)
            return out
        if not acc and wf(d) and check.startswith("C02_"):
            out.update(violates=True, data=d, wellformed_but_not_accepted=why)
            return out
    return out


def replay_timer_delay(kind):
    """every timeout the protocol object arms (call_later / call_at of _timeout_mechanism) is due one configured
    timeout after the moment it is armed.  Real event loop, two concurrent callers; the peer answers after 0.6 of the
    timeout and connecting takes 0.25 of it, so time passes between entering send_request and transmitting."""
    T = 0.2
    loop = asyncio.new_event_loop()
    delays = []
    orig_later, orig_at = loop.call_later, loop.call_at

    def is_timeout(cb):
        return getattr(cb, "__name__", "") == "_timeout_mechanism"

    def call_later(delay, cb, *a, **k):
        if is_timeout(cb):
            delays.append(delay)
        return orig_later(delay, cb, *a, **k)

    def call_at(when, cb, *a, **k):
        if is_timeout(cb):
            delays.append(when - loop.time())
        return orig_at(when, cb, *a, **k)
    loop.call_later, loop.call_at = call_later, call_at

    async def go():
        P = _cls(kind)("127.0.0.1", 8899, 0xf7, T, 1)
        P.keep_alive = True

        class Slow(_Peer):
            def _send(self, payload):
                self.sent.append(bytes(payload))
                orig_later(0.6 * T, self._deliver, b"ANSWER")
        peer = Slow(loop, P, [], kind)

        async def connect():
            await asyncio.sleep(0.25 * T)
            if not P._transport:
                P._transport = peer
        P._connect = connect
        cmds = [ProtocolCommand(b"request%d" % i, lambda d: d == b"ANSWER") for i in range(2)]
        return await asyncio.gather(*[c.execute(P) for c in cmds], return_exceptions=True)
    try:
        res = loop.run_until_complete(asyncio.wait_for(go(), 20))
    finally:
        loop.close()
    bad = [d for d in delays if abs(d - T) > 0.1 * T]
    return {"timeout": T, "delays_when_armed": delays, "outcomes": [type(r).__name__ for r in res],
            "violates": bool(bad)}


def replay_fragment_cleared(kind):
    """at every transmission the fragment state of the previous one is gone: keep-alive on and off, the peer answers the
    first transmission with a lone fragment (validator: PartialResponseException), stays silent, and the state is
    inspected when the retransmission (and the next request) goes out"""
    out = {"runs": [], "violates": False}
    for keep_alive in (True, False):
        loop = asyncio.new_event_loop()
        seen = []

        def validator(data):
            if data == b"FRAG":
                raise PartialResponseException(len(data), len(data) + 7)
            return data == b"ANSWER"

        async def go():
            P = _cls(kind)("127.0.0.1", 8899, 0xf7, 0.02, 1)
            P.keep_alive = keep_alive

            class Frag(_Peer):
                def _send(self, payload):
                    self.sent.append(bytes(payload))
                    seen.append({"partial_data": P._partial_data, "partial_missing": P._partial_missing})
                    step = self.script.pop(0) if self.script else "silent"
                    if step == "frag":
                        self.loop.call_soon(self._deliver, b"FRAG")
                    elif step == "answer":
                        self.loop.call_soon(self._deliver, b"ANSWER")
            script = ["frag", "silent", "frag", "answer"]

            async def connect():
                if not P._transport or P._transport.is_closing():
                    P._transport = Frag(loop, P, script, kind)
                    P._transport.script = script
            P._connect = connect
            res = []
            for i in range(3):
                try:
                    await ProtocolCommand(b"request", validator).execute(P)
                    res.append("response")
                except BaseException as e:      # noqa
                    res.append(type(e).__name__)
            return res
        try:
            res = loop.run_until_complete(asyncio.wait_for(go(), 20))
        finally:
            loop.close()
        dirty = [s for s in seen if s["partial_data"] is not None or s["partial_missing"] != 0]
        out["runs"].append({"keep_alive": keep_alive, "outcomes": res, "transmissions": len(seen),
                            "fragment_state_at_transmissions": [repr(s) for s in seen]})
        out["violates"] |= bool(dirty)
    return out


def replay_fresh_stamp(kind):
    """every transmission sends the result of a request_bytes() call of its own: a command whose request_bytes()
    numbers its calls, a silent peer (so that the request is retransmitted), the same command object sent twice"""
    out = {"violates": False, "runs": []}
    for keep_alive in (True, False):
        loop = asyncio.new_event_loop()
        stamps, sent = [], []

        class Cmd(ProtocolCommand):
            def request_bytes(self):
                stamps.append(b"wire#%d" % len(stamps))
                return stamps[-1]

        async def go():
            P = _cls(kind)("127.0.0.1", 8899, 0xf7, 0.02, 2)
            P.keep_alive = keep_alive

            class Silent(_Peer):
                def _send(self, payload):
                    self.sent.append(bytes(payload))
                    sent.append((bytes(payload), stamps[-1] if stamps else None))

            async def connect():
                if not P._transport or P._transport.is_closing():
                    P._transport = Silent(loop, P, [], kind)
            P._connect = connect
            cmd = Cmd(b"template", lambda d: d == b"ANSWER")
            for i in range(2):
                try:
                    await cmd.execute(P)
                except BaseException:      # noqa
                    pass
        try:
            loop.run_until_complete(asyncio.wait_for(go(), 20))
        finally:
            loop.close()
        payloads = [p for p, s in sent]
        bad = [i for i, (p, s) in enumerate(sent) if p != s] or (len(set(payloads)) != len(payloads))
        out["runs"].append({"keep_alive": keep_alive, "sent": [p.decode() for p in payloads]})
        out["violates"] |= bool(bad)
    return out


# ---- thorough tier: exhaustive fault scripts on the real classes over a virtual-clock event loop (bounded stand-in) ----------------
class _VLoop(asyncio.SelectorEventLoop):
    """event loop whose clock jumps to the next timer when nothing is ready: runs are deterministic and take no wall
    time (uses the CPython attributes _ready / _scheduled of BaseEventLoop)"""

    def __init__(self):
        super().__init__()
        self._vt = 0.0

    def time(self):
        return self._vt

    def _run_once(self):
        self._steps = getattr(self, "_steps", 0) + 1
        if self._steps > 200000:
            raise _Stuck("livelock: more than 200000 loop iterations")
        if not self._ready:
            live = [h for h in self._scheduled if not h._cancelled]
            if not live:
                # nothing is ready and no timer is pending: with stub transports nothing can ever happen again
                raise _Stuck("deadlock: a task is waiting, nothing is scheduled")
            when = min(h._when for h in live)
            if when > self._vt:
                self._vt = when
        super()._run_once()


class _Stuck(Exception):
    pass


class _VTransport:
    """stub transport behaving like asyncio's: close() makes is_closing() true and delivers connection_lost(None) in a
    later loop iteration, once; a datagram send error is reported synchronously inside sendto()"""

    def __init__(self, loop, proto, world, kind):
        self.loop, self.proto, self.world, self.kind = loop, proto, world, kind
        self.closing = False
        self.lost = False
        world.open.append(self)
        world.max_open = max(world.max_open, len(world.open))

    def is_closing(self):
        return self.closing

    def get_extra_info(self, *a, **k):
        return None

    def _lost(self, exc):
        if not self.lost:
            self.lost = True
            self.closing = True
            if self in self.world.open:
                self.world.open.remove(self)
            self.proto.connection_lost(exc)

    def close(self):
        if not self.closing:
            self.closing = True
            if self in self.world.open:
                self.world.open.remove(self)
            self.loop.call_soon(self._lost, None)

    def abort(self):
        self.close()

    def _deliver(self, data):
        if self.closing:
            return
        if self.kind == "udp":
            self.proto.datagram_received(data, ("h", 1))
        else:
            self.proto.data_received(data)

    def _send(self, payload):
        w = self.world
        if self.closing:
            return
        step = w.script.pop(0) if w.script else "silent"
        T = w.timeout
        if step == "senderror" and self.kind == "udp":
            w.send_errors += 1
            self.proto.error_received(OSError(101, "ENETUNREACH"))
            return
        w.sent.append((self.loop.time(), bytes(payload)))
        if step == "answer":
            self.loop.call_soon(self._deliver, b"ANSWER")
        elif step == "late":
            self.loop.call_later(0.6 * T, self._deliver, b"ANSWER")
        elif step == "dup":
            self.loop.call_soon(self._deliver, b"ANSWER")
            self.loop.call_soon(self._deliver, b"ANSWER")
        elif step == "garbage":
            self.loop.call_soon(self._deliver, b"GARBAGE")
        elif step == "reject":
            self.loop.call_later(0.2 * T, self._deliver, b"REJECT")
        elif step == "frag2":
            self.loop.call_later(0.5 * T, self._deliver, b"FRAG")
            self.loop.call_later(0.9 * T, self._deliver, b"REST")
        elif step == "frag1":
            self.loop.call_later(0.5 * T, self._deliver, b"FRAG")
        elif step == "error":
            if self.kind == "udp":
                self.loop.call_later(0.2 * T, self.proto.error_received, OSError(113, "EHOSTUNREACH"))
            else:
                self.loop.call_later(0.2 * T, self._lost, ConnectionResetError(104, "reset"))
        elif step == "close" and self.kind == "tcp":
            self.loop.call_later(0.2 * T, self._lost, None)

    sendto = lambda self, payload, addr=None: self._send(payload)      # noqa
    write = lambda self, payload: self._send(payload)      # noqa


class _World:
    def __init__(self, timeout):
        self.timeout = timeout
        self.script = []
        self.sent = []
        self.open = []
        self.max_open = 0
        self.send_errors = 0
        self.connects = 0


def _sweep_validator(data):
    if data == b"REJECT":
        raise RequestRejectedException("ILLEGAL DATA ADDRESS")
    if data == b"FRAG":
        raise PartialResponseException(4, 8)
    return data in (b"ANSWER", b"FRAGREST")


def _run_history(kind, retries, keep_alive, scripts, T=1.0):
    """one protocol object, one request per script; returns the per-request observations"""
    loop = _VLoop()
    world = _World(T)
    unhandled = []
    loop.set_exception_handler(lambda l, ctx: unhandled.append(repr(ctx.get("exception") or ctx.get("message"))))

    async def endpoint(factory, **kw):
        # the real create_datagram_endpoint / create_connection suspend at least once (socket set-up, `await waiter`), so
        # callbacks scheduled before (connection_lost of a transport just closed) run first -- assumption A2
        await asyncio.sleep(0)
        await asyncio.sleep(0)
        world.connects += 1
        proto = factory()
        t = _VTransport(loop, proto, world, kind)
        proto.connection_made(t)
        return t, proto
    loop.create_datagram_endpoint = lambda factory, remote_addr=None, **kw: endpoint(factory)
    loop.create_connection = lambda factory, host=None, port=None, **kw: endpoint(factory)
    obs = []

    async def go():
        P = _cls(kind)("127.0.0.1", 8899 if kind == "udp" else 502, 0xf7, T, retries)
        P.keep_alive = keep_alive
        for script in scripts:
            world.script = list(script)
            n0, t0 = len(world.sent), loop.time()
            rec = {"script": list(script)}
            try:
                r = await asyncio.wait_for(ProtocolCommand(b"request", _sweep_validator).execute(P), 1000 * T)
                rec["outcome"] = "response"
                rec["data"] = bytes(r.raw_data)
            except asyncio.TimeoutError:
                rec["outcome"] = "HANG"
            except GeneratorExit:
                raise
            except BaseException as e:      # noqa
                rec["outcome"] = type(e).__name__
                rec["inverter_error"] = isinstance(e, InverterError)
                rec["rejected"] = isinstance(e, RequestRejectedException)
                # ProtocolCommand.execute reports exhausted retries as MaxRetriesException; Inverter._read_from_socket
                # turns it into RequestFailedException (C09 units)
                rec["failed"] = isinstance(e, (RequestFailedException, MaxRetriesException))
                rec["message"] = getattr(e, "message", None)
            await asyncio.sleep(0)
            rec["tx"] = len(world.sent) - n0
            rec["tx_times"] = [round(t - t0, 6) for t, _ in world.sent[n0:]]
            rec["elapsed"] = round(loop.time() - t0, 6)
            rec["open_after"] = len(world.open)
            rec["retry_after"] = P._retry
            obs.append(rec)
        await P.close()
        await asyncio.sleep(0)
        await asyncio.sleep(0)
    stuck = None
    try:
        loop.run_until_complete(go())
    except _Stuck as e:
        stuck = str(e)
    finally:
        loop.close()
    while len(obs) < len(scripts):
        obs.append({"script": list(scripts[len(obs)]), "outcome": "HANG", "why": stuck, "tx": len(world.sent), "tx_times": [],
                    "elapsed": None, "open_after": len(world.open), "retry_after": None})
    return {"requests": obs, "max_open": world.max_open, "open_at_end": len(world.open), "unhandled": unhandled,
            "stuck": stuck}


def fault_script_sweep(kind, retries, keep_alive):
    """THOROUGH, BOUNDED: every fault script of length retries+1 over the alphabet below, followed by a request to a
    healthy peer and one to a silent peer, on the real protocol classes and a virtual-clock event loop.  Judged against
    the statements of C04/C05/C07/C08/C09/C10 directly (not against the ghost model)."""
    import itertools
    alphabet = ["silent", "answer", "late", "dup", "garbage", "reject", "frag2", "frag1", "error"] + (
        ["senderror"] if kind == "udp" else ["close"])
    T = 1.0
    budget = retries + 1
    names = ["C04_request_terminates", "C04_outcome_is_response_rejection_or_failure", "C04_at_most_retries_plus_one_transmissions",
             "C04_silent_peer_exactly_retries_plus_one_transmissions_one_timeout_apart",
             "C04_failure_reported_one_timeout_after_the_last_transmission", "C05_next_request_has_the_full_budget",
             "C06_C04_answer_ends_the_request_without_retransmission", "C07_two_fragments_succeed_without_retransmission",
             "C07_reassembled_bytes_are_exact", "C08_rejection_at_once_with_its_reason", "C09_only_inverter_errors",
             "C09_no_exception_escapes_a_callback", "C10_nothing_open_without_keep_alive", "C10_at_most_one_transport_open",
             "C10_nothing_open_after_close", "C10_next_request_works"]
    tag = f"{kind}.r{retries}.{'ka' if keep_alive else 'nka'}"
    obligations = [{"name": n, "detail": f"{tag}: all {len(alphabet)}^{budget} fault scripts", "backend": "bounded-exhaustive"}
                   for n in names]
    failures = []

    def fail(name, script, rec, why):
        if sum(1 for f in failures if f["obligation"] == name) < 5:
            failures.append({"obligation": name, "kind": kind, "retries": retries, "keep_alive": keep_alive,
                             "script": list(script), "observed": {k: v for k, v in rec.items() if k != "data"}, "why": why})
    cases = 0
    nonterminal = ("silent", "frag1") + (("garbage",) if kind == "udp" else ())
    for script in itertools.product(alphabet, repeat=budget):
        cases += 1
        # the faulty request, then (same object) a silent peer, then a healthy one
        h = _run_history(kind, retries, keep_alive, [script, ["silent"] * budget, ["answer"]], T)
        r1, r3, r2 = h["requests"]
        # index of the first step that ends the request by the statements (None: undetermined by them)
        k = next((i for i, s in enumerate(script) if s not in nonterminal), None)
        for rec in (r1, r2, r3):
            if rec["outcome"] == "HANG":
                fail("C04_request_terminates", script, rec, rec.get("why") or "request still pending after 1000 timeouts")
            elif rec["outcome"] != "response" and not (rec.get("rejected") or rec.get("failed")):
                fail("C04_outcome_is_response_rejection_or_failure", script, rec, rec["outcome"])
            if rec["outcome"] != "response" and rec["outcome"] != "HANG" and not rec.get("inverter_error"):
                fail("C09_only_inverter_errors", script, rec, rec["outcome"])
            if rec["tx"] > budget:
                fail("C04_at_most_retries_plus_one_transmissions", script, rec, f"{rec['tx']} transmissions")
            if not keep_alive and rec["open_after"]:
                fail("C10_nothing_open_without_keep_alive", script, rec, f"{rec['open_after']} transport(s) open")
        if h["unhandled"]:
            fail("C09_no_exception_escapes_a_callback", script, r1, "; ".join(h["unhandled"])[:200])
        if h["max_open"] > 1:
            fail("C10_at_most_one_transport_open", script, r1, f"{h['max_open']} open at the same time")
        if h["open_at_end"]:
            fail("C10_nothing_open_after_close", script, r1, f"{h['open_at_end']} open after close()")
        if r2["outcome"] != "response" or r2["tx"] != 1:
            fail("C10_next_request_works", script, r2, "healthy peer after the faulty request")
        if r3["tx"] != budget or r3["outcome"] == "response":
            fail("C05_next_request_has_the_full_budget", script, r3, f"{r3['tx']} transmissions to a silent peer")
        exp_times = [round(i * T, 6) for i in range(budget)]
        if r3["tx_times"] != exp_times:
            fail("C04_silent_peer_exactly_retries_plus_one_transmissions_one_timeout_apart", script, r3,
                 f"sent at {r3['tx_times']}, expected {exp_times}")
        if r3["outcome"] not in ("response", "HANG") and abs(r3["elapsed"] - budget * T) > 1e-6:
            fail("C04_failure_reported_one_timeout_after_the_last_transmission", script, r3, f"elapsed {r3['elapsed']}")
        if k is not None and all(s == "silent" for s in script[:k]):
            step = script[k]
            if step in ("answer", "late", "dup"):
                if r1["outcome"] != "response" or r1["tx"] != k + 1:
                    fail("C06_C04_answer_ends_the_request_without_retransmission", script, r1, step)
            elif step == "frag2":
                if r1["outcome"] != "response" or r1["tx"] != k + 1:
                    fail("C07_two_fragments_succeed_without_retransmission", script, r1, step)
                elif r1.get("data") != b"FRAGREST":
                    fail("C07_reassembled_bytes_are_exact", script, r1, repr(r1.get("data")))
            elif step == "reject":
                if not r1.get("rejected") or r1["tx"] != k + 1 or r1.get("message") != "ILLEGAL DATA ADDRESS":
                    fail("C08_rejection_at_once_with_its_reason", script, r1, step)
    return {"cases": cases, "exhaustive": True, "failures": failures, "obligations": obligations}


def replay_init(kind, timeout, retries, check):
    """construct two real protocol objects and evaluate the clause of the constructor unit natively"""
    cls = _cls(kind)
    names = ("_host", "_port", "_comm_addr", "_running_loop", "_lock", "_timer", "timeout", "retries", "keep_alive",
             "protocol", "response_future", "command", "_partial_data", "_partial_missing", "_transport", "_retry")
    mutable = (list, dict, set, bytearray)
    out = {"check": check}
    try:
        a = cls("127.0.0.1", 8899, 0xf7, timeout, retries)
        b = cls("127.0.0.2", 8899, 0xf7, timeout, retries)
    except Exception as e:      # noqa
        out["raised"] = repr(e)
        out["violates"] = "raises_nothing" in check
        return out
    out["undefined"] = [n for n in names if not hasattr(a, n)]
    out["shared_mutable"] = sorted({n for c in cls.__mro__ if c.__module__.startswith("goodwe")
                                    for n, v in vars(c).items() if isinstance(v, mutable) and not n.startswith("__")}
                                   | {n for n in names if hasattr(a, n) and isinstance(getattr(a, n), mutable)
                                      and getattr(a, n) is getattr(b, n, None)})
    g = lambda n: getattr(a, n, "<undefined>")      # noqa
    facts = {
        "every_state_attribute_is_defined": not out["undefined"],
        "no_mutable_class_level_state": not out["shared_mutable"],
        "no_state_attribute_is_a_shared_container": not out["shared_mutable"],
        "keeps_the_configured_timeout": g("timeout") == timeout,
        "keeps_the_configured_retries": g("retries") == retries,
        "full_retry_budget": g("_retry") == 0,
        "I4_retry_within_budget": isinstance(g("_retry"), int) and 0 <= g("_retry") <= retries,
        "nothing_open_after_construction": g("_transport") is None,
        "I6_open_transports": g("_transport") is None,
        "no_asyncio_object_is_created_outside_a_loop": all(g(n) is None for n in ("_lock", "_running_loop", "_timer",
                                                                                  "response_future")),
        "no_request_in_flight": g("command") is None and g("response_future") is None,
        "I1_request_in_flight_is_bound": True,
        "I2_": g("response_future") is None or g("_timer") is not None,
        "no_fragment_after_construction": g("_partial_data") is None and g("_partial_missing") == 0,
        "I5_partial_state_consistent": (g("_partial_missing") == 0) if g("_partial_data") is None
        else (isinstance(g("_partial_missing"), int) and g("_partial_missing") > 0),
        "keep_alive_is_off": g("keep_alive") is False,
        "raises_nothing": True,
        "ghost_counters": True,
    }
    hit = [k for k in facts if k in check]
    out["facts"] = {k: facts[k] for k in hit}
    out["violates"] = any(not facts[k] for k in hit)
    return out


def replay_stale_loop(kind):
    """C10: one keep-alive protocol object used from two event loops in turn (successive asyncio.run calls), the first
    loop closed or left open before the second is used.  The real _connect runs; create_datagram_endpoint /
    create_connection of the loops hand out scripted peers.  violates = a request issued in the second loop transmits
    on a transport that was created in the first one."""
    out = {"runs": [], "violates": False}
    for close_first in (True, False):
        P = _cls(kind)("127.0.0.1", 8899 if kind == "udp" else 502, 0xf7, 0.01, 1)
        P.keep_alive = True
        made = []

        def one_request():
            loop = asyncio.new_event_loop()

            async def endpoint(factory):
                await asyncio.sleep(0)
                proto = factory()
                t = _Peer(loop, proto, ["answer"] * 4, kind)
                t.created_in = loop
                made.append(t)
                proto.connection_made(t)
                return t, proto
            loop.create_datagram_endpoint = lambda factory, remote_addr=None, **kw: endpoint(factory)
            loop.create_connection = lambda factory, host=None, port=None, **kw: endpoint(factory)
            cmd = ProtocolCommand(b"request", lambda d: d == b"ANSWER")
            before = {id(t): len(t.sent) for t in made}
            asyncio.set_event_loop(loop)
            try:
                loop.run_until_complete(asyncio.wait_for(cmd.execute(P), 5))
                outcome = "response"
            except BaseException as e:      # noqa
                outcome = type(e).__name__
            foreign = [i for i, t in enumerate(made) if len(t.sent) > before.get(id(t), 0) and t.created_in is not loop]
            return loop, outcome, foreign
        l1, o1, f1 = one_request()
        if close_first:
            l1.close()
        l2, o2, f2 = one_request()
        l2.close()
        if not close_first:
            l1.close()
        asyncio.set_event_loop(None)
        out["runs"].append({"first_loop_closed": close_first, "first": o1, "second": o2,
                            "second_used_transport_of_first_loop": bool(f2)})
        out["violates"] |= bool(f1 or f2)
    return out
