"""Native replay of transport state-machine obligations on the real protocol classes with a real event loop and
stub transports (no sockets)."""
import asyncio
from unittest import mock

from goodwe.exceptions import (PartialResponseException, RequestRejectedException, RequestFailedException,
                               MaxRetriesException, InverterError)
from goodwe.protocol import UdpInverterProtocol, TcpInverterProtocol, ProtocolCommand


def _cls(kind):
    return UdpInverterProtocol if kind == "udp" else TcpInverterProtocol


def _future(loop, fstate):
    if fstate is None or fstate < 0:
        return None
    f = loop.create_future()
    if fstate == 1:
        f.set_result(b"old")
    elif fstate == 2:
        f.set_exception(OSError("old"))
        f.exception()
    elif fstate == 3:
        f.cancel()
    return f


def replay_callback(kind, which, retry, retries, fstate, validator, check):
    """run one callback on a real protocol object prepared in the witness state"""
    loop = asyncio.new_event_loop()
    out = {}

    def validator_fn(data):
        if validator == "True":
            return True
        if validator == "False":
            return False
        if validator == "Partial":
            raise PartialResponseException(len(data), len(data) + 3)
        raise RequestRejectedException("ILLEGAL DATA ADDRESS")

    async def go():
        P = _cls(kind)("127.0.0.1", 8899, 0xf7, 1, retries)
        P._retry = retry
        fut = _future(loop, fstate)
        P.response_future = fut
        P.command = ProtocolCommand(b"request", validator_fn)
        P._transport = mock.Mock()
        P._timer = None
        handle = None
        if check.startswith("C05_no_armed_timeout_is_forgotten"):
            handle = loop.call_later(1000, lambda: None)       # the timeout of the attempt in flight, still armed
            P._timer = handle
        before = fut.done() if fut is not None else None
        args = {"datagram_received": (b"\x01\x02\x03\x04\x05\x06\x07", ("h", 1)), "data_received": (b"\x01\x02\x03\x04\x05\x06\x07",),
                "error_received": (OSError(113, "EHOSTUNREACH"),), "connection_lost": (None,), "eof_received": (),
                "_timeout_mechanism": ()}[which]
        try:
            getattr(P, which)(*args)
        except BaseException as e:      # noqa
            out["raised"] = repr(e)
        out["retry_after"] = P._retry
        out["got_result"] = bool(fut is not None and not before and fut.done() and not fut.cancelled()
                                 and fut.exception() is None)
        out["sent"] = P._transport.sendto.call_count + P._transport.write.call_count
        if handle is not None:
            out["forgotten_while_armed"] = (P._timer is not handle) and not handle.cancelled()
            handle.cancel()
        if fut is not None and fut.done() and not fut.cancelled():
            fut.exception()
    try:
        loop.run_until_complete(go())
        loop.run_until_complete(asyncio.sleep(0))
    finally:
        loop.close()
    if check.startswith("C09_callback_raises_nothing"):
        out["violates"] = "raised" in out
    elif check.startswith("C04_C05_callback_does_not_refill_retry_budget"):
        out["violates"] = out.get("retry_after") != retry and not (out.get("got_result") and out.get("retry_after") == 0)
    elif check.startswith("C05_no_armed_timeout_is_forgotten"):
        out["violates"] = bool(out.get("forgotten_while_armed"))
    elif check.startswith("C04_callback_does_not_transmit"):
        out["violates"] = out.get("sent", 0) > 0
    else:
        out["violates"] = False
        out["note"] = "obligation not re-evaluated natively"
    return out


class _Peer:
    """scripted peer behind a stub transport: per transmission one of 'silent', 'answer', 'reject', 'error'"""

    def __init__(self, loop, proto, script, kind):
        self.loop, self.proto, self.script, self.kind = loop, proto, list(script), kind
        self.sent = []
        self.closed = 0

    def is_closing(self):
        return False

    def close(self):
        self.closed += 1

    def get_extra_info(self, *a, **k):
        return None

    def _send(self, payload):
        self.sent.append(bytes(payload))
        step = self.script.pop(0) if self.script else "silent"
        if step == "answer":
            self.loop.call_soon(self._deliver, b"ANSWER")
        elif step == "reject":
            self.loop.call_soon(self._deliver, b"REJECT")
        elif step == "error":
            self.loop.call_soon(self.proto.error_received, OSError(113, "EHOSTUNREACH"))

    def _deliver(self, data):
        if self.kind == "udp":
            self.proto.datagram_received(data, ("h", 1))
        else:
            self.proto.data_received(data)

    sendto = lambda self, payload, addr=None: self._send(payload)      # noqa
    write = lambda self, payload: self._send(payload)      # noqa


def run_requests(kind, retries, keep_alive, scripts, timeout=0.01):
    """issue len(scripts) consecutive requests through ProtocolCommand.execute; returns per request the outcome, the
    number of transmissions and the value of _retry afterwards"""
    loop = asyncio.new_event_loop()
    results = []
    unhandled = []
    loop.set_exception_handler(lambda l, ctx: unhandled.append(repr(ctx.get("exception"))))

    def validator(data):
        if data == b"REJECT":
            raise RequestRejectedException("ILLEGAL DATA ADDRESS")
        return data == b"ANSWER"

    async def go():
        P = _cls(kind)("127.0.0.1", 8899, 0xf7, timeout, retries)
        P.keep_alive = keep_alive
        peers = []

        async def connect():
            if not P._transport or P._transport.is_closing():
                t = _Peer(loop, P, [], kind)
                P._transport = t
                peers.append(t)
        P._connect = connect
        for script in scripts:
            cmd = ProtocolCommand(b"request", validator)
            n0 = sum(len(p.sent) for p in peers)
            # the script of this request is consumed by whatever transports it uses
            pending = list(script)

            async def connect2():
                if not P._transport or P._transport.is_closing():
                    t = _Peer(loop, P, pending, kind)
                    t.script = pending
                    P._transport = t
                    peers.append(t)
                else:
                    P._transport.script = pending
            P._connect = connect2
            rec = {}
            try:
                r = await cmd.execute(P)
                rec["outcome"] = "response"
            except BaseException as e:      # noqa
                rec["outcome"] = type(e).__name__
                rec["is_inverter_error"] = isinstance(e, InverterError)
            rec["transmissions"] = sum(len(p.sent) for p in peers) - n0
            rec["retry_after"] = P._retry
            results.append(rec)
    try:
        loop.run_until_complete(asyncio.wait_for(go(), 20))
    finally:
        loop.close()
    return {"requests": results, "unhandled_in_callbacks": unhandled}


def replay_exit(kind, retries, keep_alive, check):
    """canned fault scripts exercising the exits of send_request / execute"""
    retries = max(0, min(int(retries), 3))
    scripts = [["silent"] * (retries + 1), ["answer"]], [["reject"], ["silent"] * (retries + 1)], \
        [["silent", "reject"], ["silent"] * (retries + 1)], [["error"], ["answer"]], [["answer"], ["answer"]]
    out = {"runs": []}
    bad = False
    for sc in scripts:
        r = run_requests(kind, retries, bool(keep_alive), sc)
        out["runs"].append({"script": sc, "result": r})
        for i, req in enumerate(r["requests"]):
            if check.startswith("C05_retry_budget_restored"):
                bad |= req["retry_after"] != 0
            elif check.startswith("C04_"):
                bad |= req["transmissions"] > retries + 1
            elif check.startswith("C09_execute_raises_only") or check.startswith("C09_send_request"):
                bad |= req["outcome"] != "response" and not req.get("is_inverter_error")
        if check.startswith("C09_callback"):
            bad |= bool(r["unhandled_in_callbacks"])
    out["violates"] = bool(bad)
    return out


def ground_c08():
    """ground facts of C08: the constant the inverter classes compare with, that every comparison uses it, and that
    a RequestRejectedException is not caught on the way from the future to the public call"""
    import ast
    import glob
    import os
    import goodwe
    from goodwe import modbus
    failures = []
    obligations = [{"name": "C08_constant_text_is_illegal_data_address", "backend": "ground"},
                   {"name": "C08_every_comparison_uses_the_constant", "backend": "ground"},
                   {"name": "C08_rejection_not_caught_below_the_public_call", "backend": "ground"}]
    if modbus.ILLEGAL_DATA_ADDRESS != "ILLEGAL DATA ADDRESS" or modbus.FAILURE_CODES.get(2) != "ILLEGAL DATA ADDRESS":
        failures.append({"obligation": obligations[0]["name"], "value": modbus.ILLEGAL_DATA_ADDRESS})
    cases = 1
    root = os.path.dirname(goodwe.__file__)
    for path in sorted(glob.glob(os.path.join(root, "*.py"))):
        tree = ast.parse(open(path).read())
        for n in ast.walk(tree):
            if isinstance(n, ast.Compare) and isinstance(n.left, ast.Attribute) and n.left.attr == "message":
                cases += 1
                ok = all(isinstance(c, ast.Name) and c.id == "ILLEGAL_DATA_ADDRESS" for c in n.comparators)
                if not ok:
                    failures.append({"obligation": obligations[1]["name"], "file": os.path.basename(path), "line": n.lineno})
    # handlers between the future and the caller: send_request, execute, _read_from_socket
    from goodwe.exceptions import RequestRejectedException
    for fname, funcs in (("protocol.py", ("send_request", "execute")), ("inverter.py", ("_read_from_socket",))):
        tree = ast.parse(open(os.path.join(root, fname)).read())
        ns = {}
        exec("import asyncio\nfrom goodwe.exceptions import *", ns)
        for n in ast.walk(tree):
            if isinstance(n, ast.AsyncFunctionDef) and n.name in funcs:
                for h in ast.walk(n):
                    if isinstance(h, ast.ExceptHandler):
                        cases += 1
                        if h.type is None:
                            caught = True
                        else:
                            t = eval(compile(ast.Expression(h.type), "<h>", "eval"), ns)
                            t = t if isinstance(t, tuple) else (t,)
                            caught = any(issubclass(RequestRejectedException, c) for c in t)
                        reraises = any(isinstance(x, ast.Raise) and x.exc is None for x in ast.walk(h))
                        if caught and not reraises:
                            failures.append({"obligation": obligations[2]["name"], "file": fname, "function": n.name,
                                             "line": h.lineno})
    for o in obligations:
        o["cases"] = cases
    return {"cases": cases, "exhaustive": True, "failures": failures, "obligations": obligations}
