"""Contracts for goodwe/modbus.py (properties C01, C02, C03, C07, C08)."""
from pyvc.spec import *
from pyvc.api import contract
from goodwe.exceptions import PartialResponseException, RequestRejectedException

# ---- specification vocabulary -------------------------------------------------------------------------------------
# Standard Modbus exception codes.  The three texts the property spells out are matched literally; the remaining
# standard codes only have to map to some other non-empty text; everything else is "UNKNOWN".
REASON_LITERAL = {1: "ILLEGAL FUNCTION", 2: "ILLEGAL DATA ADDRESS", 3: "ILLEGAL DATA VALUE"}
OTHER_STANDARD_CODES = (4, 5, 6, 7, 8, 10, 11)


def reason_ok(code, message):
    return ((message == REASON_LITERAL.get(code, "UNKNOWN"))
            if code not in OTHER_STANDARD_CODES else
            (message != "" and message is not None and message != "UNKNOWN" and message != "ILLEGAL FUNCTION"
             and message != "ILLEGAL DATA ADDRESS" and message != "ILLEGAL DATA VALUE"))


def domain(cmd, offset, value):
    return (cmd in (3, 6, 16) and 0 <= offset <= 0xFFFF
            and ((1 <= value <= 125) if cmd == 3 else (-32768 <= value <= 32767)))


def wf_rtu(B, cmd, offset, value):
    """B is a well-formed Modbus/RTU (AA55-enveloped) answer to (cmd, offset, value) — from the statement of C01"""
    n = len(B)
    return (n >= 5 and B[3] == cmd and (
        (B[4] == 2 * value and n >= B[4] + 7
         and CRC16(B[2:B[4] + 5]) == B[B[4] + 5] + 256 * B[B[4] + 6])
        if cmd == 3 else
        (n >= 10 and be16(B[4:6]) == offset and sbe16(B[6:8]) == value
         and CRC16(B[2:8]) == B[8] + 256 * B[9])))


def wf_tcp(B, cmd, offset, value):
    n = len(B)
    return (n >= 9 and B[7] == cmd and (
        (B[8] == 2 * value and n >= B[8] + 9)
        if cmd == 3 else
        (n >= 12 and be16(B[8:10]) == offset and sbe16(B[10:12]) == value)))


def exc_frame_rtu(B, cmd):
    """canonical 7-byte exception answer with a valid CRC"""
    return len(B) == 7 and B[3] == cmd + 128 and CRC16(B[2:5]) == B[5] + 256 * B[6]


def exc_frame_tcp(B, cmd):
    return len(B) >= 9 and B[7] == cmd + 128


def fragment_rtu(B, cmd, value):
    """proper prefix (header complete) of a read answer announcing 2*value payload bytes"""
    return cmd == 3 and len(B) >= 5 and B[3] == 3 and B[4] == 2 * value and len(B) < B[4] + 7


def fragment_tcp(B, cmd, value):
    return cmd == 3 and len(B) >= 9 and B[7] == 3 and B[8] == 2 * value and len(B) < B[8] + 9


# ---- _modbus_checksum ------------------------------------------------------------------------------------------------
@contract("goodwe.modbus._modbus_checksum")
class ModbusChecksum:
    props = ("C01", "C02", "C03")
    args = {"data": "bytes"}
    returns = "int"
    pure = True
    raises_only = ()

    def ensures(data, result):
        return result == CRC16(data) and 0 <= result <= 0xFFFF

    def loop0_inv(data, crc, _i):
        return crc == CRC16(data[0:_i]) and 0 <= crc <= 0xFFFF

    # the table-driven step equals the bitwise definition (proved on 32-bit vectors, see pyvc.loops)
    def loop0_body_requires(crc, ch):
        return 0 <= crc <= 0xFFFF and 0 <= ch <= 255

    def loop0_body_ensures(crc, ch, crc_out):
        return crc_out == crc16_step(crc, ch)

    bv_body = (0,)

    def bv_replay(w):
        """a refuted step lemma (crc, ch): every 16-bit state is reached by some 2-byte prefix"""
        for a in range(256):
            for b in range(256):
                if CRC16(bytes([a, b])) == w["crc"]:
                    return [{"data": bytes([a, b, w["ch"]])}]
        return []

    def samples():
        return [(b"",), (b"\x00",), (bytes(range(256)),), (b"\xf7\x03\x88\xb8\x00\x21",), (b"\xff" * 300,)]


# ---- validators ----------------------------------------------------------------------------------------------------------
def _rtu_frame(cmd, payload):
    body = b"\xf7" + bytes([cmd]) + payload
    c = CRC16(body)
    return b"\xaa\x55" + body + bytes([c & 0xFF, c >> 8])


def _fix_crc_rtu(data):
    """candidate repairs of a solver witness: put the real CRC where the frame's own header says it belongs"""
    out = []
    d = bytearray(data)
    n = len(d)
    places = []
    if n >= 5:
        if d[3] == 3:
            places.append(d[4] + 5)
        if d[3] in (6, 16):
            places.append(8)
        places.append(n - 2)
    for p in places:
        if 2 <= p and p + 2 <= n:
            e = bytearray(d)
            c = CRC16(bytes(e[2:p]))
            e[p] = c & 0xFF
            e[p + 1] = c >> 8
            out.append(bytes(e))
    return out


@contract("goodwe.modbus.validate_modbus_rtu_response")
class ValidateRtu:
    props = ("C01",)
    args = {"data": "bytes", "cmd": "int", "offset": "int", "value": "int"}
    returns = "bool"
    pure = True
    raises_only = (PartialResponseException, RequestRejectedException)
    # the transport state machine (C04, C08, C09) relies on it: an exception of any other kind escapes the callback
    raises_only_name = "C01_C02_C04_C08_C09_raises_only"
    cover = ("True", "False", "PartialResponseException", "RequestRejectedException")

    def requires(data, cmd, offset, value):
        return domain(cmd, offset, value)

    def ensures_C01_accept_implies_wellformed(data, cmd, offset, value, result):
        return (result is True or result is False) and (not result or wf_rtu(data, cmd, offset, value))

    def ensures_C01_C17_accepted_write_answer_echoes_register_and_value(data, cmd, offset, value, result):
        # what "write_setting succeeded" means at the wire (C17): the inverter acknowledged this very write
        return (not result or cmd == 3
                or (len(data) >= 10 and be16(data[4:6]) == offset and sbe16(data[6:8]) == value))

    def ensures_C02_wellformed_implies_accept(data, cmd, offset, value, result):
        return result or not wf_rtu(data, cmd, offset, value)

    def ensures_C07_fragment_is_partial(data, cmd, offset, value, result):
        return not fragment_rtu(data, cmd, value)

    def ensures_C08_exception_frame_is_rejected(data, cmd, offset, value, result):
        return not exc_frame_rtu(data, cmd)

    def raises_PartialResponseException__C07_fragment(data, cmd, offset, value, raised):
        return (len(data) >= 5 and data[3] == 3 and data[4] == 2 * value
                and raised.length == len(data) and raised.expected == data[4] + 7 and raised.expected > len(data))

    def raises_PartialResponseException__C02_C08_not_a_complete_frame(data, cmd, offset, value, raised):
        return not wf_rtu(data, cmd, offset, value) and not exc_frame_rtu(data, cmd)

    def raises_RequestRejectedException__C08_reason(data, cmd, offset, value, raised):
        return len(data) >= 5 and data[3] != cmd and reason_ok(data[4], raised.message)

    def raises_RequestRejectedException__C02_C07_not_wellformed(data, cmd, offset, value, raised):
        return not wf_rtu(data, cmd, offset, value) and not fragment_rtu(data, cmd, value)

    def repair(args):
        return [dict(args, data=d) for d in _fix_crc_rtu(args["data"])]

    def samples():
        rd = _rtu_frame(3, b"\x04\x01\x02\x03\x04")
        wr = _rtu_frame(6, b"\xb7\x98\xff\xfe")
        ex = _rtu_frame(0x83, b"\x02")
        out = []
        for f, a in ((rd, (3, 0x88b8, 2)), (wr, (6, 0xb798, -2)), (ex, (3, 1, 1)), (wr, (16, 0xb798, -2)),
                     (rd, (6, 1, 2)), (rd + b"xx", (3, 1, 2)), (rd, (3, 1, 3))):
            out.append((f,) + a)
            for k in range(len(f)):
                out.append((f[:k],) + a)
            out.append((f[:-1] + bytes([f[-1] ^ 1]),) + a)
        return out


@contract("goodwe.modbus.validate_modbus_tcp_response")
class ValidateTcp:
    props = ("C01",)
    args = {"data": "bytes", "cmd": "int", "offset": "int", "value": "int"}
    returns = "bool"
    pure = True
    raises_only = (PartialResponseException, RequestRejectedException)
    # the transport state machine (C04, C08, C09) relies on it: an exception of any other kind escapes the callback
    raises_only_name = "C01_C02_C04_C08_C09_raises_only"
    cover = ("True", "False", "PartialResponseException", "RequestRejectedException")

    def requires(data, cmd, offset, value):
        return domain(cmd, offset, value)

    def ensures_C01_accept_implies_wellformed(data, cmd, offset, value, result):
        return (result is True or result is False) and (not result or wf_tcp(data, cmd, offset, value))

    def ensures_C01_C17_accepted_write_answer_echoes_register_and_value(data, cmd, offset, value, result):
        return (not result or cmd == 3
                or (len(data) >= 12 and be16(data[8:10]) == offset and sbe16(data[10:12]) == value))

    def ensures_C02_wellformed_implies_accept(data, cmd, offset, value, result):
        return result or not wf_tcp(data, cmd, offset, value)

    def ensures_C07_fragment_is_partial(data, cmd, offset, value, result):
        return not fragment_tcp(data, cmd, value)

    def ensures_C08_exception_frame_is_rejected(data, cmd, offset, value, result):
        return not exc_frame_tcp(data, cmd)

    def raises_PartialResponseException__C07_fragment(data, cmd, offset, value, raised):
        return (len(data) >= 9 and data[7] == 3
                and raised.length == len(data) and raised.expected == data[8] + 9 and raised.expected > len(data))

    def raises_PartialResponseException__C02_C08_not_a_complete_frame(data, cmd, offset, value, raised):
        return not wf_tcp(data, cmd, offset, value) and not exc_frame_tcp(data, cmd)

    def raises_RequestRejectedException__C08_reason(data, cmd, offset, value, raised):
        return len(data) >= 9 and data[7] != cmd and reason_ok(data[8], raised.message)

    def raises_RequestRejectedException__C02_C07_not_wellformed(data, cmd, offset, value, raised):
        return not wf_tcp(data, cmd, offset, value) and not fragment_tcp(data, cmd, value)

    def samples():
        rd = bytes.fromhex("000100000007f70304") + b"\x01\x02\x03\x04"
        wr = bytes.fromhex("000100000006f706b798fffe")
        ex = bytes.fromhex("000100000003f78302")
        out = []
        for f, a in ((rd, (3, 0x88b8, 2)), (wr, (6, 0xb798, -2)), (ex, (3, 1, 1)), (wr, (16, 0xb798, -2)),
                     (rd, (6, 1, 2)), (rd + b"xx", (3, 1, 2)), (rd, (3, 1, 3))):
            out.append((f,) + a)
            for k in range(len(f)):
                out.append((f[:k],) + a)
        return out


# ---- request encoders (C03) ----------------------------------------------------------------------------------------------
def enc_domain(comm_addr, cmd, offset, value):
    return 0 <= comm_addr <= 255 and domain(cmd, offset, value)


def multi_domain(comm_addr, cmd, offset, values):
    return (0 <= comm_addr <= 255 and cmd == 16 and 0 <= offset <= 0xFFFF and is_bytes(values)
            and 2 <= len(values) <= 246 and len(values) % 2 == 0)


@contract("goodwe.modbus.create_modbus_rtu_request")
class CreateRtu:
    props = ("C03",)
    inline_at_calls = True
    args = {"comm_addr": "int", "cmd": "int", "offset": "int", "value": "int"}
    returns = "bytes"
    pure = True
    raises_only = ()

    def requires(comm_addr, cmd, offset, value):
        return enc_domain(comm_addr, cmd, offset, value)

    def ensures_C03_decodes_back(comm_addr, cmd, offset, value, result):
        return (len(result) == 8 and result[0] == comm_addr and result[1] == cmd
                and be16(result[2:4]) == offset and be16(result[4:6]) == value % 65536
                and sbe16(result[4:6]) == value - (65536 if value >= 32768 else 0)
                and result[6] + 256 * result[7] == CRC16(result[0:6]))

    def samples():
        return [(0xf7, 3, 0x88b8, 0x21), (0xf7, 6, 0xb798, -2), (0, 6, 0, -32768), (255, 16, 65535, 32767),
                (1, 3, 1, 125)]


@contract("goodwe.modbus.create_modbus_tcp_request")
class CreateTcp:
    props = ("C03",)
    inline_at_calls = True
    args = {"comm_addr": "int", "cmd": "int", "offset": "int", "value": "int"}
    returns = "bytes"
    pure = True
    raises_only = ()

    def requires(comm_addr, cmd, offset, value):
        return enc_domain(comm_addr, cmd, offset, value)

    def ensures_C03_decodes_back(comm_addr, cmd, offset, value, result):
        return (len(result) == 12 and be16(result[2:4]) == 0 and be16(result[4:6]) == len(result) - 6
                and result[6] == comm_addr and result[7] == cmd
                and be16(result[8:10]) == offset and be16(result[10:12]) == value % 65536)

    def samples():
        return [(0xf7, 3, 0x88b8, 0x21), (0xf7, 6, 0xb798, -2), (0, 6, 0, -32768), (255, 16, 65535, 32767)]


@contract("goodwe.modbus.create_modbus_rtu_multi_request")
class CreateRtuMulti:
    props = ("C03",)
    inline_at_calls = True
    args = {"comm_addr": "int", "cmd": "int", "offset": "int", "values": "bytes"}
    returns = "bytes"
    pure = True
    raises_only = ()

    def requires(comm_addr, cmd, offset, values):
        return multi_domain(comm_addr, cmd, offset, values)

    def ensures_C03_decodes_back(comm_addr, cmd, offset, values, result):
        n = len(values)
        return (len(result) == 9 + n and result[0] == comm_addr and result[1] == cmd
                and be16(result[2:4]) == offset and be16(result[4:6]) * 2 == n and result[6] == n
                and same_bytes(result[7:7 + n], values)
                and result[7 + n] + 256 * result[8 + n] == CRC16(result[0:7 + n]))

    def samples():
        return [(0xf7, 16, 0xb798, b"\x08\x07\x06\x05"), (1, 16, 0, bytes(range(246))), (0, 16, 65535, b"\xff\xff")]


@contract("goodwe.modbus.create_modbus_tcp_multi_request")
class CreateTcpMulti:
    props = ("C03",)
    inline_at_calls = True
    args = {"comm_addr": "int", "cmd": "int", "offset": "int", "values": "bytes"}
    returns = "bytes"
    pure = True
    raises_only = ()

    def requires(comm_addr, cmd, offset, values):
        return multi_domain(comm_addr, cmd, offset, values)

    def ensures_C03_decodes_back(comm_addr, cmd, offset, values, result):
        n = len(values)
        return (len(result) == 13 + n and be16(result[2:4]) == 0 and be16(result[4:6]) == len(result) - 6
                and result[6] == comm_addr and result[7] == cmd
                and be16(result[8:10]) == offset and be16(result[10:12]) * 2 == n and result[12] == n
                and same_bytes(result[13:13 + n], values))

    def samples():
        return [(0xf7, 16, 0xb798, b"\x08\x07\x06\x05"), (1, 16, 0, bytes(range(246))), (0, 16, 65535, b"\xff\xff")]
