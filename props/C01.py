"""C01 — only validated response frames are ever delivered as results."""
from .common import *

SIDECARS = ["modbus", "protocol_cmd", "protocol_sm"]
KEYS = ["goodwe.modbus._modbus_checksum", "goodwe.modbus.validate_modbus_rtu_response",
        "goodwe.modbus.validate_modbus_tcp_response",
        "goodwe.protocol.Aa55ProtocolCommand._validate_aa55_response"]


def units(tier):
    from . import C04
    return (contract_units(SIDECARS, KEYS, tier) + bv_units(SIDECARS, KEYS[0], (0,), tier)
            + diff_units(SIDECARS, KEYS, tier)
            + [u for u in C04.protocol_units(tier) if "received" in u[4] or "execute" in u[4]]
            + C04.binding_units(tier))


replay = replay_protocol


INFO = {
    "trusted_base": [TB["T1"], TB["T2"], TB["T3"]],
    "assumptions": [],
    "undecided_clauses": [],
}
