"""C20 — inverter objects are independent; returned values do not change afterwards (frame conditions)."""
from .common import *

SIDECARS = ["sensor", "protocol_cmd"]


def units(tier):
    import contracts.sensor as cs
    return script_units(SIDECARS, "table_rows", "rows", ("C11", "C12", "C20"), tier, sorted(cs.sensor_tables()))


replay = replay_rows
INFO = {
    "trusted_base": [TB["T1"], TB["T2"], TB["T3"]],
    "assumptions": [],
    "undecided_clauses": [],
}
