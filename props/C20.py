"""C20 — inverter objects are independent; returned values do not change afterwards (frame conditions)."""
from .common import *

SIDECARS = ["sensor", "protocol_cmd", "modbus", "inverter"]


def units(tier):
    import contracts.sensor as cs
    from . import C18
    api = [tuple(list(u[:1]) + [SIDECARS] + list(u[2:5]) + [("C20",)] + list(u[6:])) for u in C18.units(tier)
           if u[3] in ("readonly_call", "et_device_info", "dt_device_info")]
    # what a callback of one object does must not depend on process-wide state other objects write (the callbacks run
    # with the Modbus/TCP transaction counter of the process havocked; obligation tagged C20)
    from . import C04
    callbacks = [u for u in C04.protocol_units(tier) if "received" in u[4] or "__init__" in u[4]]
    return (script_units(SIDECARS, "table_rows", "rows", ("C11", "C12", "C20"), tier, sorted(cs.sensor_tables())) + api
            + callbacks)


def replay(vc, unit):
    if vc['name'].startswith('rows:'):
        return replay_rows(vc, unit)
    if "Protocol" in vc["name"].split("/")[0]:
        return replay_protocol(vc, unit)
    from pyvc import units
    from pyvc.native import dec
    w = vc.get("witness") or {}
    if "family" not in w or "method" not in w:
        return None
    task = {"op": "func", "module": "contracts.inverter_native", "func": "replay_shared",
            "kwargs": {"family": w["family"], "method": w["method"], "args": w.get("args", []),
                       "script": w.get("script", []), "variant": w.get("variant", 0)}}
    out = units.native_batch([task], oneshot=True)[0]       # a fresh process: class-level state must be pristine
    rec = {"kind": "script", "native_task": task, "native_result": out}
    if not out["ok"]:
        return None, rec
    res = dec(out["result"])
    rec["native_result"] = res
    return bool(res.get("violates")), rec
INFO = {
    "trusted_base": [TB["T1"], TB["T2"], TB["T3"]],
    "assumptions": [],
    "undecided_clauses": [],
}
