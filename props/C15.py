"""C15 — read_runtime_data() keys equal sensors() for every model and capability set."""
from .common import *

SIDECARS = ["sensor", "protocol_cmd", "modbus", "inverter"]
PROPS = ("C15", "C14", "C18", "C09", "C03")


def scenario_units(tier):
    from pyvc import inverter_harness as ih
    out = []
    H = "pyvc.inverter_harness"
    for fam in ("et", "dt", "es"):
        out.append(("script", SIDECARS, H, f"{fam}_device_info", f"{fam.upper()}.read_device_info", PROPS, tier, {}))
    for i in range(len(ih.et_states())):
        out.append(("script", SIDECARS, H, "et_runtime", f"ET.read_runtime_data@state{i}", PROPS, tier, {"state": i}))
    for i in range(8):
        out.append(("script", SIDECARS, H, "dt_runtime", f"DT.read_runtime_data@state{i}", PROPS, tier, {"state": i}))
    out.append(("script", SIDECARS, H, "es_runtime", "ES.read_runtime_data", PROPS, tier, {}))
    return out


def units(tier):
    # the scenarios use _map_response and _read_from_socket through their contracts; the units that prove those
    # contracts for the bodies carry C15-tagged clauses (every id present; a rejection stays a rejection)
    return (scenario_units(tier) + contract_units(SIDECARS, ["goodwe.inverter.Inverter._map_response",
                                                            "goodwe.inverter.Inverter._decode"], tier)
            + [("script", SIDECARS + ["protocol_sm"], "pyvc.inverter_harness", "read_from_socket_counter",
                "Inverter._read_from_socket", PROPS, tier, {})])


replay = replay_c15
INFO = {
    "trusted_base": [TB["T1"], TB["T2"], TB["T3"]],
    "assumptions": ["the transport Inverter._read_from_socket is under (assumed) contract: a returned Modbus read answer has exactly 2*count payload bytes (C01), a refused block raises RequestRejectedException(ILLEGAL DATA ADDRESS) consistently over the scenario",
                    "model-tag predicates are unconstrained booleans per (tag, serial number): every real tag combination is among them",
                    "transient failures (RequestFailedException) are outside C15's quantifier and excluded from the runtime scenario"],
    "undecided_clauses": [],
}
