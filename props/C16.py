"""C16 — reading a single sensor gives the same value as the bulk read."""
from .common import *

SIDECARS = ["sensor", "protocol_cmd", "modbus", "inverter"]


def units(tier):
    import contracts.sensor as cs
    from . import C15
    tabs = [t for t in sorted(cs.sensor_tables()) if not t.startswith("ES.") and "sensors" in t]
    out = script_units(SIDECARS, "single_read_rows", "single", ("C16",), tier, tabs)
    H = "pyvc.inverter_harness"
    for fam, n in (("ET", 12), ("DT", 3)):
        for c in range(n):
            out.append(("script", C15.SIDECARS, H, "single_vs_bulk", f"api:{fam}#{c}", ("C16",), tier,
                        {"family": fam, "chunk": c, "nchunks": n}))
        out.append(("script", C15.SIDECARS, H, "sensor_cache_history", f"cache:{fam}", ("C16",), tier, {"family": fam}))
    return out


def replay(vc, unit):
    if vc["name"].startswith(("api:", "cache:")):
        return replay_c16(vc, unit)
    return replay_rows(vc, unit)
INFO = {
    "trusted_base": [TB["T1"], TB["T2"], TB["T3"]],
    "assumptions": ["A5 float operators uninterpreted (single and bulk read must build the same term)"],
    "undecided_clauses": [],
}
