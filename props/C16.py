"""C16 — reading a single sensor gives the same value as the bulk read."""
from .common import *

SIDECARS = ["sensor", "protocol_cmd"]


def units(tier):
    import contracts.sensor as cs
    tabs = [t for t in sorted(cs.sensor_tables()) if not t.startswith("ES.") and "sensors" in t]
    return script_units(SIDECARS, "single_read_rows", "single", ("C16",), tier, tabs)


replay = replay_rows
INFO = {
    "trusted_base": [TB["T1"], TB["T2"], TB["T3"]],
    "assumptions": ["A5 float operators uninterpreted (single and bulk read must build the same term)"],
    "undecided_clauses": [],
}
