"""C04 — every request terminates after at most retries+1 transmissions (transport state machine)."""
from .common import *

SIDECARS = ["modbus", "protocol_cmd", "protocol_sm"]
PROPS = ("C04", "C05", "C06", "C07", "C08", "C09", "C10", "C01", "C03", "C18", "C20")
H = "pyvc.protocol_harness"
CALLBACKS = {"udp": ("datagram_received", "error_received", "connection_lost", "_timeout_mechanism"),
             "tcp": ("data_received", "error_received", "connection_lost", "eof_received", "_timeout_mechanism")}


def protocol_units(tier):
    out = []
    for kind in ("udp", "tcp"):
        for cb in CALLBACKS[kind]:
            out.append(("script", SIDECARS, H, "callback_segment", f"{kind}.{cb}", PROPS, tier,
                        {"kind": kind, "which": cb}))
        for case in range(12):
            out.append(("script", SIDECARS, H, "send_request_segment", f"{kind}.send_request#{case}", PROPS, tier,
                        {"kind": kind, "case": case}))
        for entry in ("stale_loop", "other", "contended"):
            for case in range(0, 12, 2):
                out.append(("script", SIDECARS, H, "send_request_segment", f"{kind}.send_request@{entry}#{case}", PROPS,
                            tier, {"kind": kind, "case": case, "entry": entry}))
        out.append(("script", SIDECARS, H, "execute_segment", f"{kind}.execute", PROPS, tier, {"kind": kind}))
        out.append(("script", SIDECARS, H, "close_segment", f"{kind}.close", PROPS, tier, {"kind": kind}))
        out.append(("script", SIDECARS, H, "init_segment", f"{kind}.__init__", PROPS, tier, {"kind": kind}))
    if tier == "thorough":
        out += sweep_units()
    return out


def sweep_units():
    """thorough tier, BOUNDED stand-in next to the proofs: every fault script of length retries+1 (retries 0..4) over a
    10-letter alphabet on the real protocol classes and a virtual-clock event loop, judged against the statements
    themselves.  It cross-checks the trusted asyncio model T4 and decides the real-time clauses (spacing of
    retransmissions, moment of the failure report) that the segment proofs leave to T4."""
    out = []
    for kind in ("udp", "tcp"):
        for retries in (0, 1, 2, 3, 4):
            for ka in (False, True):
                out.append(("native", SIDECARS, "contracts.protocol_native", "fault_script_sweep",
                            f"sweep:{kind}.r{retries}.{'ka' if ka else 'nka'}", PROPS,
                            {"kind": kind, "retries": retries, "keep_alive": ka}))
    return out


VALIDATORS = ["goodwe.modbus.validate_modbus_rtu_response", "goodwe.modbus.validate_modbus_tcp_response",
              "goodwe.protocol.Aa55ProtocolCommand._validate_aa55_response"]


def binding_units(tier):
    """the validator each command class carries, on the command built by its real constructor (C01; its raises-only
    clause is also what the transport state machine assumes of `command.validator`)"""
    from pyvc.protocol_harness import BINDING_CLASSES
    return [("script", SIDECARS, H, "command_binding", f"binding:{c}", ("C01", "C02", "C04", "C09"), tier, {"clsname": c})
            for c in BINDING_CLASSES]


def units(tier):
    # the segments model the validator of the command in flight by its proved outcomes; the obligations that justify
    # it (validators and the commands' bindings raise nothing else) are part of this property's check
    return protocol_units(tier) + contract_units(SIDECARS, VALIDATORS, tier) + binding_units(tier)


replay = replay_protocol
INFO = {
    "trusted_base": [TB["T1"], TB["T2"], TB["T3"], TB["T4"], TB["T5"]],
    "assumptions": ["A1 a datagram / stream byte / transport error reaches a protocol object only after it transmitted at least once",
                    "single requesting task for the transmission bound (C06 treats several callers)",
                    "the validator of the command in flight behaves as proved for the three real validators (C01: returns a bool or raises PartialResponseException / RequestRejectedException)"],
    "undecided_clauses": ["real-time spacing: that a timer fires `timeout` seconds after it was armed and the failure is reported one timeout after the last transmission is the event loop's behaviour (T4 gives: once, not before the delay); the only delays requested are self.timeout and the literal 5 of wait_for"],
}
