"""C13 — derived and label sensors always agree with the raw sensors of the same read."""
from .common import *

SIDECARS = ["sensor", "protocol_cmd", "derived"]


def units(tier):
    import contracts.sensor as cs
    out = script_units(SIDECARS, "derived_rows", "derived", ("C13",), tier, sorted(cs.sensor_tables()))
    if tier == "thorough":
        out.append(("native", SIDECARS, "contracts.derived", "exhaustive_pairs", "exhaustive:label_pairs", ("C13",)))
    return out


replay = replay_rows
INFO = {
    "trusted_base": [TB["T1"], TB["T2"], TB["T3"]],
    "assumptions": ["A5 float multiplication / rounding are uninterpreted total functions: both sides must build the same term",
                    "relations whose raw operand has no row of its own (ES ibattery1, pbattery1, pgrid, dod) are not stated"],
    "undecided_clauses": [],
}
