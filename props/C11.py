"""C11 — decoding is total: every sensor is reported, undecodable values become None."""
from .common import *

SIDECARS = ["sensor", "protocol_cmd"]


def units(tier):
    import contracts.sensor as cs
    out = script_units(SIDECARS, "table_rows", "rows", ("C11", "C12", "C20"), tier, sorted(cs.sensor_tables()))
    out.append(("native", SIDECARS, "contracts.sensor", "exhaustive_string_decoders", "exhaustive:string_decoders",
                ("C11",)))
    return out


replay = replay_rows
INFO = {
    "trusted_base": [TB["T1"], TB["T2"], TB["T3"]],
    "assumptions": ["A4 datetime() on integer fields returns or raises ValueError; struct.unpack('>f') on 4 bytes and round(x, 3) never raise",
                    "decode_day_of_week / decode_months are string-building loops outside the symbolic subset: their totality is decided by exhaustive evaluation of the real functions over -128..127 and -32768..32767 and assumed at their call sites"],
    "undecided_clauses": [],
}
