"""C11 — decoding is total: every sensor is reported, undecodable values become None."""
from .common import *

SIDECARS = ["sensor", "protocol_cmd"]


def units(tier):
    import contracts.sensor as cs
    out = script_units(SIDECARS, "table_rows", "rows", ("C11", "C12", "C20"), tier, sorted(cs.sensor_tables()))
    out.append(("native", SIDECARS, "contracts.sensor", "exhaustive_string_decoders", "exhaustive:string_decoders",
                ("C11",)))
    # "every sensor is reported, undecodable values become None" is _map_response's own contract
    out += contract_units(["sensor", "protocol_cmd", "modbus", "inverter"], ["goodwe.inverter.Inverter._map_response"], tier)
    # ... and of the bulk settings read (scenario units shared with C18)
    from . import C18
    out += [u for u in C18.units(tier) if u[3] == "readonly_call" and u[4].endswith(".read_settings_data")]
    return out


def replay(vc, unit):
    if ".read_settings_data" in vc["name"].split("/")[0]:
        return replay_api(vc, unit)
    return replay_rows(vc, unit)


INFO = {
    "trusted_base": [TB["T1"], TB["T2"], TB["T3"]],
    "assumptions": ["A4 datetime() on integer fields returns or raises ValueError; struct.unpack('>f') on 4 bytes and round(x, 3) never raise",
                    "decode_day_of_week / decode_months are string-building loops outside the symbolic subset: their totality is decided by exhaustive evaluation of the real functions over -128..127 and -32768..32767 and assumed at their call sites"],
    "undecided_clauses": [],
}
