"""C19 — operation mode, export limit and DoD setters round-trip with their getters."""
from .common import *
from . import C15

SIDECARS = C15.SIDECARS
PROPS = ("C19",)
H = "pyvc.inverter_harness"


def units(tier):
    out = []
    for fam in ("ET", "ES"):
        for fw2 in (False, True):
            for p745 in ((False, True) if fam == "ET" else (False,)):
                for mi in range(8):
                    out.append(("script", SIDECARS, H, "operation_mode_roundtrip",
                                f"opmode:{fam}.{int(fw2)}.{int(p745)}#{mi}", PROPS, tier,
                                {"family": fam, "fw2": fw2, "p745": p745, "mode_index": mi}))
    for fam in ("ET", "DT", "ES"):
        for which in ("export_limit", "dod"):
            out.append(("script", SIDECARS, H, "limit_roundtrip", f"limit:{fam}.{which}", PROPS, tier,
                        {"family": fam, "which": which}))
    out.append(("native", SIDECARS, "contracts.settings_native", "exhaustive_eco_encoders", "exhaustive:eco_encoders",
                ("C19",)))
    return out


replay = replay_c19
INFO = {
    "trusted_base": [TB["T1"], TB["T2"], TB["T3"]],
    "assumptions": ["E1 register-file inverter model (assumed)", "E2 (ES only): AA55 0359 sets the work-mode word of the settings block, 0335 the export limit word, register 0x560 the dod word — firmware behaviour, not library code",
                    "E3 eco-mode register layout (group bases 47515 / AA55 0x701 / 47547, on/off byte positions and values) is written from the protocol documentation, not read from the settings tables under test",
                    "prior on/off bytes of groups 2..4 are values ScheduleType.detect_schedule_type accepts (quantifier: prior contents of all schedule types)",
                    "SoC equality is an obligation only for ECO_CHARGE on the 12-byte (v2/745) group: the 8-byte v1 group has no SoC field and encode_discharge takes no SoC argument"],
    "undecided_clauses": [],
}
