"""C17 — a written setting reads back as written and touches only its own registers."""
from .common import *
from . import C15

SIDECARS = C15.SIDECARS
PROPS = ("C17", "C03")
H = "pyvc.inverter_harness"


def units(tier):
    from pyvc import inverter_harness as ih
    out = []
    for fam in ("ET", "DT", "ES"):
        rows = ih.setting_rows(fam)
        for i, (tn, s) in enumerate(rows):
            if ih.setting_value_kind(s) is None:
                continue
            if fam == "ES" and not s.id_.startswith("eco_mode"):
                continue      # C17: "the register-addressed settings of ES (eco-mode groups and their switches)"
            out.append(("script", SIDECARS, H, "write_setting_row", f"write:{fam}#{i}", PROPS, tier,
                        {"family": fam, "index": i}))
            if fam != "ES":
                out.append(("script", SIDECARS, H, "write_setting_row", f"write:{fam}#{i}@502", PROPS, tier,
                            {"family": fam, "index": i, "port": 502}))
    # "write_setting succeeded" = its answer was accepted: the validators' echo clauses (tagged C17) belong to the check
    out += contract_units(SIDECARS, ["goodwe.modbus.validate_modbus_rtu_response",
                                     "goodwe.modbus.validate_modbus_tcp_response"], tier)
    out.append(("native", SIDECARS, "contracts.settings_native", "exhaustive_roundtrips", "exhaustive:setting_roundtrips",
                ("C17",)))
    return out


replay = replay_write
INFO = {
    "trusted_base": [TB["T1"], TB["T2"], TB["T3"]],
    "assumptions": ["E1 inverter model (assumed, it is not code): a register file; a validated read answer carries the current contents, an accepted write stores exactly the bytes written, nothing else changes registers",
                    "float-valued setting classes (Voltage, Current, CurrentS, Decimal): encode(decode(w)) == w is decided by exhaustive evaluation of the real functions over all 65536 words (complete for the 16-bit domain), not symbolically"],
    "undecided_clauses": [],
}
