"""C05 — retry budget and timeout are per request and exactly as configured."""
from .common import *
from . import C15

SIDECARS = C15.SIDECARS
PROPS = ("C05", "C09", "C18", "C03")
H = "pyvc.inverter_harness"
ENTRY = ("discover_udp", "discover_tcp", "connect_ET", "connect_ES", "connect_DT", "connect_auto", "search_inverters")


def entry_units(tier):
    return [("script", SIDECARS, H, "entrypoint", f"entry:{w}", PROPS, tier, {"which": w}) for w in ENTRY]


def units(tier):
    return entry_units(tier)


replay = replay_api
INFO = {
    "trusted_base": [TB["T1"], TB["T2"], TB["T3"]],
    "assumptions": [],
    "undecided_clauses": ["per-request retry budget on the protocol object (exit post-condition _retry == 0 of send_request): protocol units"],
}
