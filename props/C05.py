"""C05 — retry budget and timeout are per request and exactly as configured."""
from .common import *
from . import C15

SIDECARS = C15.SIDECARS + ["protocol_sm"]
PROPS = ("C05", "C09", "C18", "C03")
H = "pyvc.inverter_harness"
ENTRY = ("discover_udp", "discover_tcp", "connect_ET", "connect_ES", "connect_DT", "connect_auto", "search_inverters")


def entry_units(tier):
    return [("script", SIDECARS, H, "entrypoint", f"entry:{w}", PROPS, tier, {"which": w}) for w in ENTRY]


def units(tier):
    from . import C04
    return entry_units(tier) + C04.protocol_units(tier)


def replay(vc, unit):
    if vc["name"].startswith("entry:"):
        return replay_api(vc, unit)
    return replay_protocol(vc, unit)
INFO = {
    "trusted_base": [TB["T1"], TB["T2"], TB["T3"]],
    "assumptions": [],
    "undecided_clauses": ["call_soon callbacks queued for an earlier attempt are counted but not tracked individually; that they run before the requesting task resumes is the event loop's FIFO order (A2)"],
}
