"""C07 — transport state machine obligations (see props/C04.py and pyvc/protocol_harness.py)."""
from .common import *
from . import C04

SIDECARS = C04.SIDECARS


VALIDATORS = ["goodwe.modbus._modbus_checksum", "goodwe.modbus.validate_modbus_rtu_response",
              "goodwe.modbus.validate_modbus_tcp_response",
              "goodwe.protocol.Aa55ProtocolCommand._validate_aa55_response"]


def units(tier):
    return C04.protocol_units(tier) + contract_units(SIDECARS, VALIDATORS, tier) + bv_units(SIDECARS, VALIDATORS[0], (0,), tier)


replay = replay_protocol
INFO = dict(C04.INFO)
