"""C10 — transport state machine obligations (see props/C04.py and pyvc/protocol_harness.py)."""
from .common import *
from . import C04

SIDECARS = C04.SIDECARS


def units(tier):
    return C04.protocol_units(tier)


replay = replay_protocol
INFO = dict(C04.INFO)
