"""C12 — each sensor value is the documented reading of exactly its own registers."""
from .common import *

SIDECARS = ["sensor", "protocol_cmd"]


def table_names():
    import contracts.sensor as cs
    return sorted(cs.sensor_tables())


def units(tier):
    out = []
    for t in table_names():
        out.append(("script", SIDECARS, "pyvc.sensor_harness", "table_rows", f"rows:{t}", ("C11", "C12", "C20"), tier,
                    {"tname": t}))
    for kind in ("rtu", "tcp", "aa55"):
        out.append(("script", SIDECARS, "pyvc.sensor_harness", "response_construction", f"response:{kind}",
                    ("C02", "C12"), tier, {"kind": kind}))
    return out + contract_units(SIDECARS, ['goodwe.protocol.ModbusRtuProtocolCommand.trim_response', 'goodwe.protocol.ModbusTcpProtocolCommand.trim_response', 'goodwe.protocol.Aa55ProtocolCommand.trim_response', 'goodwe.protocol.ModbusRtuProtocolCommand.get_offset', 'goodwe.protocol.ModbusTcpProtocolCommand.get_offset', 'goodwe.protocol.ProtocolCommand.get_offset'], tier)


replay = replay_rows
INFO = {
    "trusted_base": [TB["T1"], TB["T2"], TB["T3"]],
    "assumptions": ["A5 float operations in decoders are uninterpreted total functions (scale/sign/operand changes alter the term)",
                    "A4 datetime() on integer fields returns or raises ValueError; struct.unpack('>f') on 4 bytes and round(x, 3) never raise"],
    "undecided_clauses": ["an independent register map: 'its own register address' is the address the table declares"],
}
