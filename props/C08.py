"""C08 — transport state machine obligations (see props/C04.py and pyvc/protocol_harness.py)."""
from .common import *
from . import C04

SIDECARS = C04.SIDECARS


VALIDATORS = ["goodwe.modbus._modbus_checksum", "goodwe.modbus.validate_modbus_rtu_response",
              "goodwe.modbus.validate_modbus_tcp_response"]


def units(tier):
    return (C04.protocol_units(tier) + contract_units(SIDECARS, VALIDATORS, tier)
            + bv_units(SIDECARS, VALIDATORS[0], (0,), tier)
            + [("native", SIDECARS, "contracts.protocol_native", "ground_c08", "ground:C08", ("C08",))])


replay = replay_protocol
INFO = dict(C04.INFO)
