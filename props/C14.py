"""C14 — sensors are decoded only from registers that were actually fetched (call-site precondition of _map_response)."""
from .common import *
from . import C15

SIDECARS = C15.SIDECARS


TRIM = ['goodwe.protocol.ModbusRtuProtocolCommand.trim_response', 'goodwe.protocol.ModbusTcpProtocolCommand.trim_response',
        'goodwe.protocol.Aa55ProtocolCommand.trim_response']


def units(tier):
    # the windows are judged on a full-length answer: that the decoded block is the whole validated payload is the
    # trim_response lemma (clauses tagged C14)
    return C15.scenario_units(tier) + contract_units(SIDECARS, TRIM, tier)


replay = replay_c15
INFO = {
    "trusted_base": [TB["T1"], TB["T2"], TB["T3"]],
    "assumptions": ["read footprints of a row are taken from the symbolic execution of its real read() on a full-length answer of the block (all paths)",
                    "the pairs (block command, sensor tuple) are those reaching Inverter._map_response on some path of the C15 exploration of read_runtime_data (all invariant states x refusal sets)"],
    "undecided_clauses": [],
}
