"""C09 — failures surface only as InverterError, with a correct consecutive-failure count."""
from .common import *
from . import C15, C05, C18, C04

SIDECARS = C15.SIDECARS + ["protocol_sm"]
PROPS = ("C09",)
H = "pyvc.inverter_harness"


def units(tier):
    out = [("script", SIDECARS, H, "read_from_socket_counter", "Inverter._read_from_socket", PROPS, tier, {})]
    out += C05.entry_units(tier)
    out += [u for u in C18.units(tier) if u[3] in ("readonly_call", "et_device_info", "dt_device_info", "es_device_info")]
    out += C04.protocol_units(tier)
    out += contract_units(SIDECARS, ["goodwe.inverter.Inverter._decode"], tier)
    # the callbacks hand every received byte string to the validator: that it raises nothing but its two documented
    # exceptions is part of "nothing but InverterError escapes" (clause tagged C09 in the validator contracts)
    out += contract_units(C04.SIDECARS, C04.VALIDATORS, tier) + C04.binding_units(tier)
    return out


def replay(vc, unit):
    n = vc["name"]
    if "Protocol" in n.split("/")[0] or n.startswith("binding:"):
        return replay_protocol(vc, unit)
    return replay_api(vc, unit)


INFO = {
    "trusted_base": [TB["T1"], TB["T2"], TB["T3"], TB["T4"], TB["T5"]],
    "assumptions": ["A1 (network), A3 (user validators behave), T4: error_received is handed an OSError",
                    "raises-clauses are chained modularly: callbacks store only the validator's rejection or the transport's OSError on futures; send_request raises those or returns; execute maps to RequestFailed/Rejected/MaxRetries; _read_from_socket to RequestFailed/Rejected; the public coroutines to InverterError (+ documented ValueError)"],
    "undecided_clauses": [],
}
