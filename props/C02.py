"""C02 — every conforming response frame is accepted (converse direction of the validator contracts + payload)."""
from .common import *

SIDECARS = ["modbus", "protocol_cmd"]
KEYS = ["goodwe.modbus._modbus_checksum", "goodwe.modbus.validate_modbus_rtu_response",
        "goodwe.modbus.validate_modbus_tcp_response",
        "goodwe.protocol.Aa55ProtocolCommand._validate_aa55_response"] + ['goodwe.protocol.ModbusRtuProtocolCommand.trim_response', 'goodwe.protocol.ModbusTcpProtocolCommand.trim_response', 'goodwe.protocol.Aa55ProtocolCommand.trim_response']


def units(tier):
    resp = [("script", SIDECARS, "pyvc.sensor_harness", "response_construction", f"response:{kind}", ("C02", "C12"),
             tier, {"kind": kind}) for kind in ("rtu", "tcp", "aa55")]
    from . import C04
    return (resp + contract_units(SIDECARS, KEYS, tier) + bv_units(SIDECARS, KEYS[0], (0,), tier)
            + diff_units(SIDECARS, KEYS, tier) + C04.binding_units(tier))


def replay(vc, unit):
    return replay_protocol(vc, unit) if vc["name"].startswith("binding:") else None


INFO = {
    "trusted_base": [TB["T1"], TB["T2"], TB["T3"]],
    "assumptions": [],
    "undecided_clauses": [],
}
