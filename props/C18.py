"""C18 — reading never writes, and invalid setter arguments never reach the inverter."""
from .common import *
from . import C15

SIDECARS = C15.SIDECARS
PROPS = ("C18", "C03")
H = "pyvc.inverter_harness"


def units(tier):
    from pyvc import inverter_harness as ih
    out = []
    for fam, methods in ih.READONLY.items():
        for m in methods:
            if m in ("read_device_info", "read_runtime_data"):
                continue
            out.append(("script", SIDECARS, H, "readonly_call", f"{fam}.{m}", PROPS, tier,
                        {"family": fam, "method": m}))
            if m in ("read_setting", "get_grid_export_limit", "get_ongrid_battery_dod", "get_operation_mode"):
                # the same call on an object that was used for a write before
                out.append(("script", SIDECARS, H, "readonly_call", f"{fam}.{m}@after_write", PROPS, tier,
                            {"family": fam, "method": m, "history": True}))
        for case in ("export_limit_negative", "dod_out_of_range", "eco_power_out_of_range", "eco_soc_out_of_range",
                     "unknown_setting"):
            out.append(("script", SIDECARS, H, "invalid_setter", f"{fam}.invalid:{case}", PROPS, tier,
                        {"family": fam, "case": case}))
    # a retry of a read must re-send that read (obligations tagged C18 in the send_request segments of the transport)
    from . import C04
    sends = [u for u in C04.protocol_units(tier) if "send_request" in u[4]]
    return C15.scenario_units(tier) + out + sends


def replay(vc, unit):
    if "Protocol" in vc["name"].split("/")[0]:
        return replay_protocol(vc, unit)
    return replay_c15(vc, unit)

INFO = {
    "trusted_base": [TB["T1"], TB["T2"], TB["T3"]],
    "assumptions": ["requests are classified by an independent decoder of the request bytes handed to Inverter._read_from_socket / ProtocolCommand.execute (function code 3 / AA55 control byte 0x01 = read)",
                    "transport under assumed contract: every outcome (answer, rejection, failure) of every request is explored"],
    "undecided_clauses": [],
}
