"""C03 — requests on the wire are canonical, decodable frames carrying the arguments."""
from .common import *

SIDECARS = ["modbus", "protocol_cmd"]
ENC = ["goodwe.modbus.create_modbus_rtu_request", "goodwe.modbus.create_modbus_tcp_request",
       "goodwe.modbus.create_modbus_rtu_multi_request", "goodwe.modbus.create_modbus_tcp_multi_request"]
CMDS = ["goodwe.protocol.Aa55ProtocolCommand._checksum",
        "goodwe.protocol.Aa55ReadCommand.__init__", "goodwe.protocol.Aa55WriteCommand.__init__",
        "goodwe.protocol.Aa55WriteMultiCommand.__init__",
        "goodwe.protocol.ModbusRtuReadCommand.__init__", "goodwe.protocol.ModbusRtuWriteCommand.__init__",
        "goodwe.protocol.ModbusRtuWriteMultiCommand.__init__",
        "goodwe.protocol.ModbusTcpReadCommand.__init__", "goodwe.protocol.ModbusTcpWriteCommand.__init__",
        "goodwe.protocol.ModbusTcpWriteMultiCommand.__init__",
        "goodwe.protocol._next_tx", "goodwe.protocol.ModbusTcpProtocolCommand.request_bytes"]
KEYS = ["goodwe.modbus._modbus_checksum"] + ENC + CMDS


def units(tier):
    from . import C04
    # "changes with every transmission" is a statement about the transport too: every transmission must send the result
    # of a request_bytes() call of its own (send_request segments of the state machine, obligation tagged C03)
    sends = [u for u in C04.protocol_units(tier) if "send_request" in u[4]]
    return (contract_units(SIDECARS, KEYS, tier) + bv_units(SIDECARS, KEYS[0], (0,), tier)
            + diff_units(SIDECARS, [KEYS[0]] + ENC + CMDS[:1], tier) + sends)


def replay(vc, unit):
    return replay_protocol(vc, unit) if "send_request" in vc["name"].split("/")[0] else None


INFO = {
    "trusted_base": [TB["T1"], TB["T2"], TB["T3"], TB["T4"], TB["T5"]],
    "assumptions": ["the transport segments see the command in flight through its interface (request_bytes() returns the frame to send now); that the real Modbus/TCP request_bytes() stamps a new non-zero id is the contract proved for it in this check"],
    "undecided_clauses": [],
}
