"""helpers shared by the property drivers"""
from pyvc.api import REGISTRY

TB = {
    "T1": "T1 CPython semantics on the subset of DESIGN 2.2 (cross-checked by the differential run, not proved)",
    "T2": "T2 z3 5.1 / cvc5 1.0.3 answer correctly",
    "T3": "T3 the executor pyvc itself (guards: differential run, vacuity covers, seeded-breakage self-test)",
    "T4": "T4 contracts of the asyncio primitives in pyvc/aio_env.py (written from CPython 3.12, not verified)",
    "T5": "T5 atomicity of await-free segments (single-threaded asyncio; no threads in /repo/goodwe)",
}


def contract_units(sidecars, keys, tier, differential=True):
    out = []
    for k in keys:
        out.append(("contract", sidecars, k, tier))
    return out


def bv_units(sidecars, key, ordinals, tier):
    return [("bvlemma", sidecars, key, o, tier) for o in ordinals]


def diff_units(sidecars, keys, tier):
    return [("differential", sidecars, k, tier) for k in keys]
