"""helpers shared by the property drivers"""
from pyvc.api import REGISTRY

TB = {
    "T1": "T1 CPython semantics on the subset of DESIGN 2.2 (cross-checked by the differential run, not proved)",
    "T2": "T2 z3 5.1 / cvc5 1.0.3 answer correctly",
    "T3": "T3 the executor pyvc itself (guards: differential run, vacuity covers, seeded-breakage self-test)",
    "T4": "T4 contracts of the asyncio primitives in pyvc/aio_env.py (written from CPython 3.12, not verified)",
    "T5": "T5 atomicity of await-free segments (single-threaded asyncio; no threads in /repo/goodwe)",
}


def contract_units(sidecars, keys, tier, differential=True):
    out = []
    for k in keys:
        out.append(("contract", sidecars, k, tier))
    return out


def bv_units(sidecars, key, ordinals, tier):
    return [("bvlemma", sidecars, key, o, tier) for o in ordinals]


def diff_units(sidecars, keys, tier):
    return [("differential", sidecars, k, tier) for k in keys]


def replay_rows(vc, unit):
    """native replay of a row / relation obligation of pyvc.sensor_harness"""
    from pyvc import units
    w = vc.get("witness") or {}
    name = vc["name"]
    clause = name.rsplit("/", 1)[-1]
    if not all(k in w for k in ("payload", "first", "table", "id")) or not isinstance(w["first"], int):
        return None
    kw = {"table": w["table"], "payload": w["payload"], "first": w["first"]}
    if name.startswith("rows:"):
        func, kw["sid"], kw["clause"], mod = "replay_row", w["id"], clause, "contracts.sensor_native"
    elif name.startswith("single:"):
        func, kw["sid"], kw["clause"], mod = "replay_single", w["id"], clause, "contracts.sensor_native"
    elif name.startswith("derived:"):
        func, kw["name"], mod = "replay_relation", w["id"], "contracts.derived"
    else:
        return None
    task = {"op": "func", "module": mod, "func": func, "kwargs": kw}
    out = units.native_batch([task])[0]
    rec = {"kind": "script", "native_task": task, "native_result": out}
    if not out["ok"]:
        return None, rec
    from pyvc.native import dec
    res = dec(out["result"])
    rec["native_result"] = res
    return bool(res.get("violates")), rec


def script_units(sidecars, func, prefix, props, tier, tables):
    return [("script", sidecars, "pyvc.sensor_harness", func, f"{prefix}:{t}", props, tier, {"tname": t})
            for t in tables]


def replay_window(vc, unit):
    """native replay of a C14 window obligation 'window:block@<first>+<count>/<row id>/...'"""
    import re
    from pyvc import units
    from pyvc.native import dec
    m = re.match(r"window:block@(\d+)\+(\d+)/([^/]+)/", vc["name"])
    if not m:
        return None
    task = {"op": "func", "module": "contracts.sensor_native", "func": "replay_window",
            "kwargs": {"first": int(m.group(1)), "count": int(m.group(2)), "sid": m.group(3)}}
    out = units.native_batch([task])[0]
    rec = {"kind": "script", "native_task": task, "native_result": out}
    if not out["ok"]:
        return None, rec
    res = dec(out["result"])
    rec["native_result"] = res
    return bool(res.get("violates")), rec


def replay_api(vc, unit):
    """native replay of an inverter-level scenario obligation through a scripted transport"""
    from pyvc import units
    from pyvc.native import dec
    w = vc.get("witness") or {}
    if "script" not in w or "family" not in w:
        return None
    clause = vc["name"].rsplit("/", 1)[-1]
    task = {"op": "func", "module": "contracts.inverter_native", "func": "replay_readonly",
            "kwargs": {"family": w["family"], "method": w["method"], "args": w.get("args", []), "script": w["script"],
                       "variant": w.get("variant", 0), "check": clause, "prior": w.get("prior"),
                       "script_skip": w.get("script_skip", 0)}}
    out = units.native_batch([task])[0]
    rec = {"kind": "script", "native_task": task, "native_result": out}
    if not out["ok"]:
        return None, rec
    res = dec(out["result"])
    rec["native_result"] = res
    return bool(res.get("violates")), rec


def replay_write(vc, unit):
    from pyvc import units
    from pyvc.native import dec
    w = vc.get("witness") or {}
    if not all(k in w for k in ("family", "id", "table", "value")):
        return None
    clause = vc["name"].rsplit("/", 1)[-1]
    port = 502 if "@502" in vc["name"] else 8899
    val = w["value"]
    if isinstance(val, dict) and "$sym" in val:
        return None
    task = {"op": "func", "module": "contracts.inverter_native", "func": "replay_write",
            "kwargs": {"family": w["family"], "table": w["table"], "sid": w["id"], "value": val, "port": port,
                       "check": clause}}
    out = units.native_batch([task])[0]
    rec = {"kind": "script", "native_task": task, "native_result": out}
    if not out["ok"]:
        return None, rec
    res = dec(out["result"])
    rec["native_result"] = res
    return bool(res.get("violates")), rec


def replay_c19(vc, unit):
    from pyvc import units
    from pyvc.native import dec
    w = vc.get("witness") or {}
    clause = vc["name"].rsplit("/", 1)[-1]
    if "mode" in w:
        task = {"op": "func", "module": "contracts.inverter_native", "func": "replay_opmode",
                "kwargs": {"family": w["family"], "fw2": w["fw2"], "p745": w["p745"], "mode": w["mode"],
                           "power": w["power"], "soc": w["soc"], "prior": w["prior"], "check": clause}}
    elif "which" in w:
        task = {"op": "func", "module": "contracts.inverter_native", "func": "replay_limit",
                "kwargs": {"family": w["family"], "which": w["which"], "x": w["x"], "variant": w.get("variant", 0)}}
    else:
        return None
    out = units.native_batch([task])[0]
    rec = {"kind": "script", "native_task": task, "native_result": out}
    if not out["ok"]:
        return None, rec
    res = dec(out["result"])
    rec["native_result"] = res
    return bool(res.get("violates")), rec


def replay_protocol(vc, unit):
    from pyvc import units
    from pyvc.native import dec
    w = vc.get("witness") or {}
    clause = vc["name"].rsplit("/", 1)[-1]
    uname = vc["name"].split("/")[0]
    kind = "udp" if "Udp" in uname else "tcp"
    if clause.startswith("C03_every_transmission_sends_a_freshly_stamped_request"):
        task = {"op": "func", "module": "contracts.protocol_native", "func": "replay_fresh_stamp",
                "kwargs": {"kind": kind}}
    elif clause.startswith("C07_C08_fragment_state_cleared"):
        task = {"op": "func", "module": "contracts.protocol_native", "func": "replay_fragment_cleared",
                "kwargs": {"kind": kind}}
    elif clause.startswith("C04_C05_C06_timeout_delay"):
        task = {"op": "func", "module": "contracts.protocol_native", "func": "replay_timer_delay",
                "kwargs": {"kind": kind}}
    elif clause.startswith("C10_transmission_uses_a_transport_of_the_running_loop"):
        task = {"op": "func", "module": "contracts.protocol_native", "func": "replay_stale_loop", "kwargs": {"kind": kind}}
    elif uname.endswith(".__init__"):
        task = {"op": "func", "module": "contracts.protocol_native", "func": "replay_init",
                "kwargs": {"kind": kind, "timeout": w.get("timeout", 1), "retries": w.get("retries", 3), "check": clause}}
    elif uname.startswith("binding:"):
        task = {"op": "func", "module": "contracts.protocol_native", "func": "replay_binding",
                "kwargs": {"cls": w.get("cls", uname.split(":")[1]), "comm_addr": w.get("comm_addr", 0xf7),
                           "offset": w.get("offset", 0), "value": w.get("value", 1), "values": w.get("values", b""),
                           "data": w.get("data", b""), "check": clause}}
    elif "which" in w:
        task = {"op": "func", "module": "contracts.protocol_native", "func": "replay_callback",
                "kwargs": {"kind": kind, "which": w["which"], "retry": w.get("retry", 0), "retries": w.get("retries", 3),
                           "fstate": w.get("fstate", -1), "validator": w.get("validator", "True"), "check": clause}}
    else:
        task = {"op": "func", "module": "contracts.protocol_native", "func": "replay_exit",
                "kwargs": {"kind": kind, "retries": w.get("retries", 2), "keep_alive": w.get("keep_alive", False),
                           "check": clause}}
    out = units.native_batch([task])[0]
    rec = {"kind": "script", "native_task": task, "native_result": out}
    if not out["ok"]:
        return None, rec
    res = dec(out["result"])
    rec["native_result"] = res
    return bool(res.get("violates")), rec


def replay_c16(vc, unit):
    from pyvc import units
    from pyvc.native import dec
    w = vc.get("witness") or {}
    if "family" not in w:
        return None
    clause = vc["name"].rsplit("/", 1)[-1]
    task = {"op": "func", "module": "contracts.inverter_native", "func": "replay_c16",
            "kwargs": {"family": w["family"], "sid": w.get("id"), "check": clause}}
    out = units.native_batch([task])[0]
    rec = {"kind": "script", "native_task": task, "native_result": out}
    if not out["ok"]:
        return None, rec
    res = dec(out["result"])
    rec["native_result"] = res
    return bool(res.get("violates")), rec


def replay_c15(vc, unit):
    from pyvc import units
    from pyvc.native import dec
    w = vc.get("witness") or {}
    clause = vc["name"].rsplit("/", 1)[-1]
    if vc["name"].startswith("window:"):
        return replay_window(vc, unit)
    if "state_index" in w:
        task = {"op": "func", "module": "contracts.inverter_native", "func": "replay_runtime",
                "kwargs": {"family": w["family"], "state": w["state_index"], "script": w.get("script", []),
                           "check": clause, "sensors_first": bool(w.get("sensors_first", False))}}
    elif "method" in w:
        return replay_api(vc, unit)
    else:
        return None
    rec = {"kind": "script", "native_task": task}
    res = None
    for fill in (0, 1):
        # values the symbolic path does not tie to the payload (battery_mode != 0) are tried both ways
        t = dict(task, kwargs=dict(task["kwargs"], fill=fill))
        out = units.native_batch([t])[0]
        rec["native_result"] = out
        if not out["ok"]:
            return None, rec
        res = dec(out["result"])
        rec["native_result"] = res
        rec["native_task"] = t
        if res.get("violates"):
            break
    return bool(res.get("violates")), rec
