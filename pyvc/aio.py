"""asyncio as seen by the executor: coroutines, awaits, and (in aio_env) the ghost event-loop objects."""
from __future__ import annotations

from .sym import Unsupported

NOT_MODELLED = object()


class Coro:
    """coroutine object of an interpreted `async def`; its body runs when awaited"""
    _pyvc_model = True

    def __init__(self, ex, info, bound, globs, cls, closure_env, selfobj, fn):
        self.info = info
        self.bound = bound
        self.globs = globs
        self.cls = cls
        self.closure_env = closure_env
        self.selfobj = selfobj
        self.fn = fn
        self.started = False

    def run(self, ex):
        if self.started:
            raise Unsupported("coroutine awaited twice")
        self.started = True
        return ex.run_function(self.info, self.bound, self.globs, self.cls, self.closure_env, self.selfobj)


class ContractCoro:
    """coroutine object of an `async def` that is under contract: awaiting it applies the contract"""
    _pyvc_model = True

    def __init__(self, ex, c, info, bound):
        self.c = c
        self.info = info
        self.bound = bound

    def run(self, ex):
        from . import contracts
        g = ex.ghost
        if g is not None and hasattr(g, "before_contract_await"):
            g.before_contract_await(ex, self)
        return contracts.apply_now(ex, self.c, self.info, self.bound)


def await_value(ex, v):
    if isinstance(v, (Coro, ContractCoro)):
        return v.run(ex)
    if hasattr(type(v), "_pyvc_await"):
        return v._pyvc_await(ex)
    raise Unsupported(f"await of {type(v).__name__}")


def maybe_model(ex, fn, args, kw):
    from . import aio_env
    return aio_env.maybe_model(ex, fn, args, kw)
