"""Units of verification work (one function body against its contract, one bit-vector lemma, one scripted
scenario, one native exhaustive/ground evaluation) and their execution on a process pool."""
from __future__ import annotations

import json
import multiprocessing as mp
import os
import re
import subprocess
import sys
import tempfile
import time
import traceback
from collections import Counter

import z3

from . import interp, contracts, loops, models
from .interp import PyRaise
from .native import enc, dec
from .sbytes import SBytes, ESeg, ASeg, zt
from .sym import SInt, SBool, SFloat, SStr, SAny, Sym, Unsupported, SymLeak, iterm
from .world import get_world, REPO, VERIF

VENV_PY = "/venv/bin/python"
CVC5 = "/usr/bin/cvc5"


# ---- witnesses -----------------------------------------------------------------------------------------------------
def conc(model, v, cap=600, depth=0):
    """concrete python value of a (symbolic) value under a model"""
    if isinstance(v, SInt):
        r = model.eval(v.t, model_completion=True)
        return r.as_long() if z3.is_int_value(r) or z3.is_bv_value(r) else str(r)
    if isinstance(v, SBool):
        return z3.is_true(model.eval(v.t, model_completion=True))
    if isinstance(v, SBytes):
        out = bytearray()
        for s in v.segs:
            if isinstance(s, ESeg):
                for e in s.elems:
                    x = conc(model, e)
                    out.append(x % 256 if isinstance(x, int) else 0)
            else:
                n = model.eval(zt(s.ln), model_completion=True)
                n = n.as_long() if z3.is_int_value(n) else 0
                for i in range(min(max(n, 0), cap)):
                    x = model.eval(z3.Select(s.arr, zt(s.off) + i), model_completion=True)
                    out.append(x.as_long() % 256 if z3.is_int_value(x) else 0)
        return bytearray(out) if v.mutable else bytes(out)
    if isinstance(v, models.SStrId):
        r = model.eval(v.t, model_completion=True)
        return models.strid_value(r.as_long()) if z3.is_int_value(r) else str(r)
    if isinstance(v, models.SDatetime):
        return {"fields": [conc(model, f) for f in v.fields]}
    if isinstance(v, SFloat):
        return {"$sym": repr(v)}
    if isinstance(v, (tuple, list)):
        return type(v)(conc(model, e, cap, depth) for e in v)
    if isinstance(v, dict):
        return {k: conc(model, e, cap, depth) for k, e in v.items()}
    if isinstance(v, Sym):
        return {"$sym": repr(v)}
    if hasattr(type(v), "_pyvc_witness"):
        return v._pyvc_witness(model)
    if type(v).__module__.startswith("goodwe") and depth < 3:
        attrs = {}
        for k, x in getattr(v, "__dict__", {}).items():
            if callable(x) and not isinstance(x, Sym):
                continue
            attrs[k] = conc(model, x, cap, depth + 1)
        return _New(type(v), attrs)
    return v


class _New:
    def __init__(self, cls, attrs):
        self.cls = cls
        self.attrs = attrs


def witness_of(ex, model):
    out = {}
    for k, v in ex.inputs.items():
        try:
            out[k] = enc(conc(model, v))
        except Exception as e:      # noqa
            out[k] = {"$r": f"<unprintable: {e}>"}
    return out


def model_text(model, limit=60):
    items = []
    for d in model.decls()[:limit]:
        try:
            items.append(f"{d.name()} = {model[d]}")
        except Exception:      # noqa
            pass
    return items


# ---- running one unit ---------------------------------------------------------------------------------------------------
def _vc_dict(vc, ex_by_vc, props, want_witness=True):
    d = {"name": vc.name, "verdict": vc.verdict, "backend": vc.backend, "time": round(vc.time, 4),
         "detail": vc.detail, "props": sorted(props)}
    if vc.model is not None and want_witness:
        ex = ex_by_vc
        try:
            d["witness"] = witness_of(ex, vc.model)
            d["model"] = model_text(vc.model)
        except Exception as e:      # noqa
            d["witness_error"] = repr(e)
    if vc.smt2 is not None:
        d["smt2"] = vc.smt2
    return d


_PROP_RE = re.compile(r"C\d\d")


def props_of(vcname, default):
    clause = vcname.rsplit("/", 1)[-1]
    found = set(_PROP_RE.findall(clause))
    return found or set(default)


def cvc5_check(smt2, timeout_s):
    with tempfile.NamedTemporaryFile("w", suffix=".smt2", delete=False) as f:
        f.write("(set-logic ALL)\n" + smt2 if "(set-logic" not in smt2 else smt2)
        path = f.name
    try:
        r = subprocess.run([CVC5, "--lang=smt2", f"--tlimit={int(timeout_s * 1000)}", path], capture_output=True,
                           text=True, timeout=timeout_s + 10)
        out = r.stdout.strip().splitlines()
        return out[0] if out else "unknown"
    except Exception:      # noqa
        return "unknown"
    finally:
        os.unlink(path)


def run_explore(unit, body, reg, default_props, timeout_ms, setup=None, max_paths=6000, recheck=False):
    """explore all paths of body; return a JSON-able unit result.  Every path is digested as soon as it ends so that
    no solver state is kept (a unit with thousands of paths would otherwise need tens of GB)"""
    w = get_world()
    t0 = time.time()
    res = {"unit": unit, "vcs": [], "paths": 0, "outcomes": {}, "unsupported": [], "inlined": [], "contracts_used": [],
           "solver_time": 0.0, "queries": 0, "native_calls": 0, "error": None}
    outc = Counter()
    nref = {}
    inl, used = set(), set()

    def digest(ex, r):
        if r.outcome == "infeasible":
            return
        res["paths"] += 1
        outc[contracts.outcome_label(r)] += 1
        if r.outcome == "unsupported":
            res["unsupported"].append({"reason": r.error, "path": r.tags})
        for vc in r.vcs:
            if vc.verdict == "refuted":
                nref[vc.name] = nref.get(vc.name, 0) + 1
            d = _vc_dict(vc, ex, props_of(vc.name, default_props), nref.get(vc.name, 0) <= 2)
            d["path"] = [f"{t}={c}" for t, c in zip(r.tags, r.trace)][-12:]
            if vc.verdict == "discharged" and vc.smt2:
                # thorough tier: the same query is put to cvc5; both solvers must agree
                ans = cvc5_check(vc.smt2, 120)
                d["cvc5"] = ans
                d.pop("smt2", None)
                if ans == "sat":
                    d["verdict"] = "unknown"
                    d["detail"] = "z3 says unsat, cvc5 says sat: solvers disagree"
            if vc.verdict == "unknown" and vc.smt2:
                ans = cvc5_check(vc.smt2, timeout_ms / 1000.0)
                if ans == "unsat":
                    d["verdict"], d["backend"] = "discharged", "cvc5"
                # a cvc5 'sat' carries no model here: it stays undecided (never a violation without a replay)
                d.pop("smt2", None)
            res["vcs"].append(d)
        inl.update(ex.inlined)
        used.update(ex.called_contracts)
        res["solver_time"] += ex.solver_time
        res["queries"] += ex.nqueries
        res["native_calls"] += ex.native_calls

    seen_names = set()
    try:
        def setup2(ex):
            ex.dump_smt2 = seen_names if recheck == "once" else recheck
            if setup:
                setup(ex)
        interp.explore(w, body, unit, reg, max_paths=max_paths, timeout_ms=timeout_ms, setup=setup2, on_path=digest,
                       keep_ex=False)
    except interp.Budget as b:
        res["unsupported"].append({"reason": f"path budget exceeded: {b}", "path": []})
    res["outcomes"] = dict(outc)
    res["inlined"] = sorted(inl)
    res["contracts_used"] = sorted(used)
    res["wall"] = time.time() - t0
    return res


def unit_contract(key, tier):
    w = get_world()
    reg = contracts.REGISTRY
    c = reg[key]
    info = w.func(key)
    if info is None:
        return {"unit": key, "error": f"contract names {key} which no longer exists in the source", "vcs": [],
                "paths": 0, "unsupported": [{"reason": "contract does not bind", "path": []}]}
    fn = w.resolve(key)
    timeout = 60000 if tier == "quick" else 600000
    res = run_explore(key, lambda ex: contracts.verify_body(ex, c, info, fn), reg, c.props, timeout,
                      recheck=(tier == "thorough"))
    # vacuity: every outcome class the contract distinguishes must be reachable
    missing = [o for o in c.cover if o not in res["outcomes"]]
    res["cover"] = {"wanted": list(c.cover), "missing": missing}
    res["source_hash"] = w.hashes.get(info.filename)
    return res


def unit_bvlemma(key, ordinal, tier):
    w = get_world()
    reg = contracts.REGISTRY
    c = reg[key]
    info = w.func(key)
    fn = w.resolve(key)
    return run_explore(f"{key}#loop{ordinal}.bv", lambda ex: loops.verify_loop_body_bv(ex, c, info, fn, ordinal), reg,
                       c.props, 600000)


def unit_script(module, func, name, props, tier, kwargs=None):
    """a scenario written against the executor API: module.func(ex, **kwargs)"""
    import importlib
    mod = importlib.import_module(module)
    f = getattr(mod, func)
    timeout = 60000 if tier == "quick" else 600000
    kwargs = kwargs or {}
    return run_explore(name, lambda ex: f(ex, **kwargs), contracts.REGISTRY, props, timeout,
                       recheck=("once" if tier == "thorough" else False))


# ---- differential run: executor semantics vs CPython on concrete inputs -------------------------------------------------------
def lift_concrete(v):
    """concrete python value -> value that forces the executor through its symbolic models"""
    if isinstance(v, (bytes, bytearray)):
        return SBytes([ESeg([SInt(z3.IntVal(b)) for b in v])], isinstance(v, bytearray))
    if isinstance(v, bool):
        return v
    if isinstance(v, int):
        return SInt(z3.IntVal(v))
    return v


def lower_value(v):
    """value computed by the executor on lifted-concrete inputs -> python value (or raise)"""
    if isinstance(v, SInt):
        t = z3.simplify(v.t)
        if z3.is_int_value(t):
            return t.as_long()
        raise Unsupported(f"non-ground result {v}")
    if isinstance(v, SBool):
        t = z3.simplify(v.t)
        if z3.is_true(t):
            return True
        if z3.is_false(t):
            return False
        raise Unsupported(f"non-ground result {v}")
    if isinstance(v, SBytes):
        out = bytearray()
        for s in v.segs:
            if not isinstance(s, ESeg):
                raise Unsupported("non-ground bytes")
            for e in s.elems:
                out.append(lower_value(e))
        return bytearray(out) if v.mutable else bytes(out)
    if isinstance(v, models.SStrId):
        t = z3.simplify(v.t)
        return models.strid_value(t.as_long())
    if isinstance(v, (tuple, list)):
        return type(v)(lower_value(e) for e in v)
    if isinstance(v, Sym):
        raise Unsupported(f"non-ground result {v!r}")
    return v


def executor_outcome(key, args):
    """run the executor on concrete (lifted) arguments; returns an outcome dict comparable with native.run_call"""
    w = get_world()
    info = w.func(key)
    fn = w.resolve(key)
    f = getattr(fn, "__func__", fn)
    from .models import defining_class

    def body(ex):
        bound = ex.bind_args(info.node.args, list(f.__defaults__ or ()), dict(f.__kwdefaults__ or {}),
                             [lift_concrete(a) for a in args], {}, info.qualname)
        cls = defining_class(ex, info, fn)
        return ex.run_function(info, bound, f.__globals__, cls, None, bound.get("self"))

    results = interp.explore(w, body, key + "#diff", {}, max_paths=64)
    live = [r for r in results if r.outcome != "infeasible"]
    if len(live) != 1:
        return {"kind": "error", "why": f"{len(live)} paths on concrete input"}
    r = live[0]
    if r.outcome == "return":
        try:
            return {"kind": "return", "value": enc(lower_value(r.value))}
        except Unsupported as u:
            return {"kind": "error", "why": str(u)}
    if r.outcome == "raise":
        attrs = {}
        for k, v in getattr(r.value, "__dict__", {}).items():
            try:
                attrs[k] = enc(lower_value(v))
            except Unsupported:
                attrs[k] = {"$r": "?"}
        return {"kind": "raise", "cls": type(r.value).__name__, "attrs": attrs}
    return {"kind": "error", "why": f"{r.outcome}: {r.error}"}


_SERVER = None


def _server():
    global _SERVER
    if _SERVER is None or _SERVER.poll() is not None:
        env = dict(os.environ)
        env["GOODWE_REPO"] = REPO
        env["PYTHONPATH"] = VERIF
        env["PYTHONDONTWRITEBYTECODE"] = "1"
        _SERVER = subprocess.Popen([VENV_PY, "-m", "pyvc.native", "--serve"], stdin=subprocess.PIPE,
                                   stdout=subprocess.PIPE, stderr=subprocess.DEVNULL, text=True, env=env, cwd=VERIF)
    return _SERVER


def native_batch(tasks, repo=None, timeout=600, oneshot=False):
    """run tasks on the real code under /venv/bin/python.  A persistent server process is used for the many small
    replay requests of one check run; bulk work (exhaustive sweeps, differential batches) runs one-shot."""
    if not oneshot and repo is None and len(tasks) <= 8:
        try:
            p = _server()
            p.stdin.write(json.dumps(tasks) + "\n")
            p.stdin.flush()
            line = p.stdout.readline()
            if line.strip():
                return json.loads(line)
        except Exception:      # noqa
            pass
    env = dict(os.environ)
    env["GOODWE_REPO"] = repo or REPO
    env["PYTHONPATH"] = VERIF
    env["PYTHONDONTWRITEBYTECODE"] = "1"
    p = subprocess.run([VENV_PY, "-m", "pyvc.native"], input=json.dumps(tasks), capture_output=True, text=True,
                       env=env, cwd=VERIF, timeout=timeout)
    if p.returncode != 0 or not p.stdout.strip():
        raise RuntimeError(f"native runner failed: rc={p.returncode} {p.stderr[-2000:]}")
    return json.loads(p.stdout)


def unit_differential(key, tier):
    """CPython vs executor on the contract's sample inputs (guards the verifier, DESIGN 2.9)"""
    reg = contracts.REGISTRY
    c = reg[key]
    t0 = time.time()
    samples = c.samples() if c.samples else []
    tasks = [{"op": "call", "key": key, "args": [enc(a) for a in s]} for s in samples]
    res = {"unit": key + "#differential", "samples": len(samples), "mismatches": [], "vcs": [], "paths": 0,
           "unsupported": [], "error": None}
    if not samples:
        res["wall"] = 0.0
        return res
    native = native_batch(tasks)
    for s, nr in zip(samples, native):
        if not nr["ok"]:
            res["mismatches"].append({"args": enc(list(s)), "native_error": nr["error"]})
            continue
        n = nr["result"]
        try:
            e = executor_outcome(key, s)
        except (SymLeak, Exception) as ex_:      # noqa
            e = {"kind": "error", "why": repr(ex_)}
        same = n["kind"] == e["kind"] and (
            (n["kind"] == "return" and n["value"] == e["value"]) or
            (n["kind"] == "raise" and n["cls"] == e["cls"] and all(
                n["attrs"].get(k) == v for k, v in e["attrs"].items())))
        if not same:
            if e["kind"] == "error" and "nsupported" in str(e.get("why", "")):
                res["unsupported"].append({"reason": "differential run: " + str(e["why"]), "path": []})
            else:
                res["mismatches"].append({"args": enc(list(s)), "native": n, "executor": e})
    res["wall"] = time.time() - t0
    return res


def unit_native(module, func, name, props, kwargs=None):
    """exhaustive / ground evaluation of the real code under /venv/bin/python.  The native function returns
    {"cases": n, "failures": [ {...witness...}, ... ], "obligations": [names...]}"""
    t0 = time.time()
    out = native_batch([{"op": "func", "module": module, "func": func,
                         "kwargs": {k: enc(v) for k, v in (kwargs or {}).items()}}])[0]
    res = {"unit": name, "vcs": [], "paths": 0, "unsupported": [], "error": None, "native": True,
           "native_module": module, "native_func": func, "native_kwargs": {k: enc(v) for k, v in (kwargs or {}).items()}}
    if not out["ok"]:
        res["error"] = out["error"] + "\n" + out.get("trace", "")
        res["wall"] = time.time() - t0
        return res
    r = dec(out["result"])
    res["cases"] = r.get("cases", 0)
    res["exhaustive"] = r.get("exhaustive", False)
    for ob in r["obligations"]:
        fails = [f for f in r["failures"] if f.get("obligation") == ob["name"]]
        d = {"name": f"{name}/{ob['name']}", "verdict": "refuted" if fails else "discharged",
             "backend": ob.get("backend", "exhaustive"), "time": 0.0, "props": sorted(props_of(ob["name"], props)),
             "detail": ob.get("detail"), "cases": ob.get("cases")}
        if fails:
            d["witness"] = enc(fails[0])
            d["native_failures"] = len(fails)
            d["reproduced"] = True      # failures come from running the real code
            d["all_failures"] = [enc(f) for f in fails[:200]]
        res["vcs"].append(d)
    res["wall"] = time.time() - t0
    return res


# ---- pool ----------------------------------------------------------------------------------------------------------------------
def _worker(spec):
    kind = spec[0]
    try:
        sidecars = spec[1]
        w = get_world()
        contracts.load_sidecars(w, sidecars)
        if kind == "contract":
            return unit_contract(spec[2], spec[3])
        if kind == "bvlemma":
            return unit_bvlemma(spec[2], spec[3], spec[4])
        if kind == "differential":
            return unit_differential(spec[2], spec[3])
        if kind == "script":
            return unit_script(*spec[2:])
        if kind == "native":
            return unit_native(*spec[2:])
        raise ValueError(kind)
    except BaseException as e:      # noqa
        return {"unit": str(spec[2:4]), "error": "".join(traceback.format_exception(type(e), e, e.__traceback__))[-4000:],
                "vcs": [], "paths": 0, "unsupported": [], "crash": True}


def run_units(specs, jobs=None):
    """run the units on a process pool; a worker that dies (e.g. killed by the OOM killer) does not hang the check:
    its unit is retried once alone and otherwise reported as a checker error"""
    from concurrent.futures import ProcessPoolExecutor
    from concurrent.futures.process import BrokenProcessPool
    jobs = jobs or min(16, max(1, os.cpu_count() or 1))
    if len(specs) <= 1 or jobs == 1:
        return [_worker(s) for s in specs]
    ctx = mp.get_context("fork")
    results = [None] * len(specs)
    todo = list(range(len(specs)))
    for attempt in range(2):
        if not todo:
            break
        workers = min(jobs, len(todo)) if attempt == 0 else 1
        try:
            with ProcessPoolExecutor(max_workers=workers, mp_context=ctx) as pool:
                futs = {i: pool.submit(_worker, specs[i]) for i in todo}
                for i, f in futs.items():
                    try:
                        results[i] = f.result()
                    except BrokenProcessPool:
                        pass
                    except Exception as e:      # noqa
                        results[i] = {"unit": str(specs[i][2:5]), "error": repr(e), "vcs": [], "paths": 0,
                                      "unsupported": [], "crash": True}
        except BrokenProcessPool:
            pass
        todo = [i for i in todo if results[i] is None]
    for i in todo:
        results[i] = {"unit": str(specs[i][2:5]), "error": "worker process died (out of memory?)", "vcs": [],
                      "paths": 0, "unsupported": [], "crash": True}
    return results
