"""Scenario units over the sensor tables: every row of every table is executed symbolically (any payload, any
length, any block start) against the per-class specifications in contracts/sensor.py."""
from __future__ import annotations

import ast
import math

import z3

from . import contracts, models
from .interp import PyRaise
from .models import MBytesIO
from .sbytes import SBytes, zt
from .sym import SInt, SBool, SFloat, Sym, Unsupported, mk_bool, mk_int, iterm, is_sym

_EQ = ast.Eq()


def tables():
    import contracts.sensor as cs
    return cs.sensor_tables()


def make_response(ex, payload, kind, first):
    """a ProtocolResponse over `payload` whose command maps addresses like the real block commands do"""
    from goodwe.protocol import ProtocolResponse, ModbusRtuProtocolCommand, ProtocolCommand
    resp = ex.new_object(ProtocolResponse.__new__(ProtocolResponse))
    if kind == "modbus":
        cmd = ex.new_object(ModbusRtuProtocolCommand.__new__(ModbusRtuProtocolCommand))
        cmd.first_address = first
    else:
        cmd = ex.new_object(ProtocolCommand.__new__(ProtocolCommand))
    resp.command = cmd
    resp.raw_data = payload
    resp._bytes = ex.new_object(MBytesIO(payload))
    return resp


def values_equal(ex, a, b):
    if a is None or b is None:
        if isinstance(a, Sym) or isinstance(b, Sym):
            return ex.compare(_EQ, a, b)
        return a is b
    if is_sym(a) or is_sym(b):
        return ex.compare(_EQ, a, b)
    try:
        return bool(a == b)
    except Exception:      # noqa
        return a is b


def conj(*xs):
    ts = []
    for x in xs:
        if isinstance(x, bool):
            if not x:
                return False
            continue
        ts.append(x.t)
    return mk_bool(z3.And(*ts)) if ts else True


def spec_position(s, kind, first):
    """byte position of a row per the statement of C12"""
    if kind == "modbus":
        return mk_int((z3.IntVal(s.offset) - iterm(first)) * 2)
    return s.offset


def table_rows(ex, tname):
    """C11 (totality), C12 (value + footprint + position), C20 (no writes, no aliasing) for one table"""
    ex.contracts = {k: v for k, v in ex.contracts.items() if not k.endswith(".read")}   # rows are executed, not abstracted
    import contracts.sensor as cs
    rows = tables()[tname]
    i = ex.choose(len(rows), tag="row")
    s = rows[i]
    kind = cs.table_kind(tname)
    cls = type(s).__name__
    payload = SBytes.fresh(ex, "payload")
    first = ex.fresh_int("first") if kind == "modbus" else 0
    ex.inputs = {"payload": payload, "first": first, "row": i, "table": tname, "id": s.id_}
    ex.unit = f"rows:{tname}/{s.id_}[{cls}]"
    resp = make_response(ex, payload, kind, first)
    spec = cs.CLASS_SPECS.get(cls)
    p = spec_position(s, kind, first)
    n = payload.length()
    inwin = None
    if spec is not None:
        w = spec[0]
        inwin = ex.branch(z3.And(iterm(p) >= 0, iterm(p) + w <= zt(n)), tag="in_window")
    writes0 = len(ex.writes)
    ev0 = len(ex.events)
    raised = None
    v = None
    try:
        v = ex.call(s.read, [resp], {})
    except PyRaise as pr:
        raised = pr.exc
    # ---- C11: nothing but ValueError
    ex.check("C11_raises_only_ValueError", raised is None or isinstance(raised, ValueError),
             detail=None if raised is None else f"{type(raised).__name__}: {raised}")
    # ---- C20: decoding modifies no shared object and does not hand out a shared definition
    new_writes = ex.writes[writes0:]
    ex.check("C20_F1_decoding_modifies_nothing", not new_writes,
             detail="; ".join(f"{type(o).__name__}.{a}" if not isinstance(o, str) else f"{o}.{a}"
                              for o, a in new_writes[:6]))
    shared = [r for t in tables().values() for r in t]
    ex.check("C20_F2_result_is_not_a_shared_definition", not any(v is r for r in shared))
    if spec is None or not inwin:
        return None
    # ---- C12: position, footprint, value
    reads = [e for e in ex.events[ev0:] if e[0] == "read"]
    seeks = [e for e in ex.events[ev0:] if e[0] == "seek"]
    if seeks:
        ex.check("C12_position_is_address_mapping", values_equal(ex, seeks[0][1], p))
    pt = iterm(p)
    for r in reads:
        ex.check("C12_C14_reads_only_own_registers",
                 mk_bool(z3.And(iterm(r[1]) >= pt, iterm(r[1]) + r[2] <= pt + w)),
                 detail=f"read({r[2]}) at {r[1]}")
    view = payload.slice(ex, p, mk_int(pt + w))
    if spec[1] is not None:
        if raised is None:
            ref = contracts.eval_spec_value(ex, spec[1], [view, s])
            ex.check("C12_value_is_documented_reading", values_equal(ex, v, ref))
        else:
            ex.check("C12_value_is_documented_reading", False, detail=f"raised {type(raised).__name__}")
    elif cls in ("EcoModeV1",) and raised is None:
        for name, off, k in cs.ECO_V1_FIELDS:
            ref = contracts.eval_spec_value(ex, cs.field_value, [view, off, k])
            ex.check("C12_value_is_documented_reading", values_equal(ex, getattr(v, name), ref), detail=name)
    elif cls in ("Schedule", "EcoModeV2", "PeakShavingMode") and raised is None:
        for name, off, k in cs.SCHEDULE_FIELDS:
            ref = contracts.eval_spec_value(ex, cs.field_value, [view, off, k])
            ex.check("C12_value_is_documented_reading", values_equal(ex, getattr(v, name), ref), detail=name)
    elif cls == "Timestamp" and raised is None:
        dts = [e for e in ex.events[ev0:] if e[0] == "datetime"]
        if dts:
            kw = dts[-1][2]
            want = {"year": mk_int(iterm(view.elem_at(ex, 0)) + 2000), "month": view.elem_at(ex, 1),
                    "day": view.elem_at(ex, 2), "hour": view.elem_at(ex, 3), "minute": view.elem_at(ex, 4),
                    "second": view.elem_at(ex, 5)}
            ex.check("C12_value_is_documented_reading",
                     conj(*[values_equal(ex, kw.get(k), want[k]) for k in want]))
    return None


def single_read_rows(ex, tname):
    """C16: read_value on a response of exactly 2*ceil(size_/2) bytes equals the bulk read of the enclosing block"""
    ex.contracts = {k: v for k, v in ex.contracts.items() if not k.endswith(".read")}   # rows are executed, not abstracted
    import contracts.sensor as cs
    rows = tables()[tname]
    i = ex.choose(len(rows), tag="row")
    s = rows[i]
    kind = cs.table_kind(tname)
    cls = type(s).__name__
    ex.unit = f"single:{tname}/{s.id_}[{cls}]"
    payload = SBytes.fresh(ex, "payload")
    first = ex.fresh_int("first") if kind == "modbus" else 0
    ex.inputs = {"payload": payload, "first": first, "row": i, "table": tname, "id": s.id_}
    nbytes = 2 * ((s.size_ + 1) // 2)
    p = spec_position(s, kind, first)
    pt = iterm(p)
    # the enclosing block contains the registers the single read requests, and whatever the class really reads
    spec = cs.CLASS_SPECS.get(cls)
    w = max(nbytes, spec[0] if spec else 0)
    ex.assume(mk_bool(z3.And(pt >= 0, pt + w <= zt(payload.length()))))
    resp = make_response(ex, payload, kind, first)
    bulk_raised = None
    bulk = None
    try:
        bulk = ex.call(s.read, [resp], {})
    except PyRaise as pr:
        bulk_raised = pr.exc
    # the answer to "read `count` registers at s.offset": exactly those bytes
    own = payload.slice(ex, p, mk_int(pt + nbytes))
    resp2 = make_response(ex, own, "modbus", s.offset)
    ev0 = len(ex.events)
    single_raised = None
    single = None
    try:
        single = ex.call(s.read_value, [resp2], {})
    except PyRaise as pr:
        single_raised = pr.exc
    ex.check("C16_read_value_is_implemented", not isinstance(single_raised, NotImplementedError),
             detail=f"{cls}.read_value raises NotImplementedError")
    if isinstance(single_raised, NotImplementedError):
        return
    for r in [e for e in ex.events[ev0:] if e[0] == "read"]:
        ex.check("C16_single_read_stays_inside_requested_registers",
                 mk_bool(z3.And(iterm(r[1]) >= 0, iterm(r[1]) + r[2] <= nbytes)), detail=f"read({r[2]}) at {r[1]} of {nbytes}")
    if bulk_raised is not None:
        ex.check("C16_single_equals_bulk", isinstance(single_raised, ValueError) or single_raised is None and False,
                 detail="bulk read reports None (ValueError); single read must raise ValueError")
    else:
        if single_raised is not None:
            ex.check("C16_single_equals_bulk", False, detail=f"single read raised {type(single_raised).__name__}")
        else:
            ex.check("C16_single_equals_bulk", values_equal(ex, single, bulk))


def derived_rows(ex, tname):
    """C13: every derived / label row agrees with the raw rows decoded from the same response"""
    ex.contracts = {k: v for k, v in ex.contracts.items() if not k.endswith(".read")}   # rows are executed, not abstracted
    import contracts.sensor as cs
    import contracts.derived as cd
    rows = tables()[tname]
    rels = cd.all_relations(tname, rows)
    if not rels:
        return None
    k = ex.choose(len(rels), tag="relation")
    name, ids, rk, rel = rels[k]
    by_id = {r.id_: r for r in rows}
    kind = cs.table_kind(tname)
    ex.unit = f"derived:{tname}/{name}"
    payload = SBytes.fresh(ex, "payload")
    first = ex.fresh_int("first") if kind == "modbus" else 0
    ex.inputs = {"payload": payload, "first": first, "table": tname, "id": name}
    # the block is long enough for everything read (C14 is about that; here full-length answers are assumed)
    resp = make_response(ex, payload, kind, first)
    vals = {}
    ev0 = len(ex.events)
    for i in ids:
        try:
            vals[i] = ex.call(by_id[i].read, [resp], {})
        except PyRaise as pr:
            if isinstance(pr.exc, ValueError):
                return None
            raise
    for e in ex.events[ev0:]:
        if e[0] == "read":
            ex.assume(mk_bool(z3.And(iterm(e[1]) >= 0, iterm(e[1]) + e[2] <= zt(payload.length()))))
    if rk == "label":
        ok = contracts.eval_spec_value(ex, cd.label_relation, [vals[ids[0]], vals[ids[1]], by_id[ids[0]]._labels])
        cname = "C13_label_is_lookup_of_code"
    elif rk == "bitmap4":
        ok = contracts.eval_spec_value(ex, cd.bitmap_relation, [vals[ids[0]], vals[ids[1]], by_id[ids[0]]._labels])
        cname = "C13_bitmap_lists_exactly_the_set_bits"
    elif rk == "bitmap22":
        ok = contracts.eval_spec_value(ex, cd.bitmap22_relation,
                                       [vals[ids[0]], vals[ids[1]], vals[ids[2]], by_id[ids[0]]._labels])
        cname = "C13_bitmap_lists_exactly_the_set_bits"
    else:
        ok = contracts.eval_spec_value(ex, rel, [vals])
        cname = "C13_derived_value_follows_its_definition"
    ex.check(cname, ex.truth_value(ok))
    return None


def response_construction(ex, kind):
    """C02/C12: a ProtocolResponse built by the real constructor reads exactly the payload of the frame: its byte
    source is command.trim_response(raw), seek() goes to command.get_offset(address), read() reads from there"""
    from goodwe.protocol import (ProtocolResponse, ModbusRtuProtocolCommand, ModbusTcpProtocolCommand,
                                 Aa55ProtocolCommand, ProtocolCommand)
    cls, hdr, tail = {"rtu": (ModbusRtuProtocolCommand, 5, 2), "tcp": (ModbusTcpProtocolCommand, 9, 0),
                      "aa55": (Aa55ProtocolCommand, 7, 2)}[kind]
    ex.unit = f"ProtocolResponse@{kind}"
    cmd = ex.new_object(cls.__new__(cls))
    first = ex.fresh_int("first")
    cmd.first_address = first
    n = ex.fresh_int("plen")
    ex.assume(mk_bool(z3.And(n.t >= 0, n.t <= 255)))
    frame = ex.fresh_arr("frame")
    from .sbytes import ASeg
    raw = SBytes([ASeg(frame, 0, n.t + (hdr + tail))])
    ex.inputs = {"raw": raw, "first": first}
    resp = ex.call(ProtocolResponse, [raw, cmd], {})
    src = resp._bytes.data
    ex.check("C02_C12_byte_source_is_the_payload_of_the_frame",
             len(src.segs) == 1 and src.segs[0].arr.eq(frame)
             and ex.known(z3.And(zt(src.segs[0].off) == hdr, zt(src.segs[0].ln) == n.t)))
    rd = ex.call(resp.response_data, [], {})
    ex.check("C02_response_data_is_the_payload", mk_bool(zt(rd.length()) == n.t))
    addr = ex.fresh_int("address")
    want = mk_int((addr.t - first.t) * 2) if kind != "aa55" else addr
    ex.assume(mk_bool(iterm(want) >= 0))
    ex.call(resp.seek, [addr], {})
    ex.check("C12_seek_goes_to_the_mapped_position", values_equal(ex, resp._bytes.pos, want))
    got = ex.call(resp.read, [2], {})
    ex.assume(mk_bool(iterm(want) + 2 <= n.t))
    ex.check("C12_read_returns_the_bytes_at_that_position",
             mk_bool(z3.And(iterm(got.elem_at(ex, 0)) == z3.Select(frame, hdr + iterm(want)),
                            iterm(got.elem_at(ex, 1)) == z3.Select(frame, hdr + iterm(want) + 1))))
