"""Ghost model of the asyncio primitives used by goodwe.protocol (trusted contracts T4, DESIGN 2.6/3)."""
from __future__ import annotations

from .aio import NOT_MODELLED


def maybe_model(ex, fn, args, kw):
    return NOT_MODELLED
