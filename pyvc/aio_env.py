"""Ghost model of the asyncio primitives used by goodwe.protocol — the trusted contracts T4 of DESIGN section 3,
written from the CPython 3.12 sources of asyncio.futures, asyncio.locks, asyncio.base_events and
asyncio.selector_events.  Nothing here is verified; every evidence file that used it says so.

Future      PENDING / RESULT / EXCEPTION / CANCELLED; set_result / set_exception raise InvalidStateError unless
            PENDING; cancel() is a no-op returning False when done; awaiting suspends until done.
Lock        release() raises RuntimeError if not locked and frees the lock at once; another task can take it only
            at a suspension point of the current one; acquire() suspends.
call_later  returns a handle; the callback runs once, not before the delay, unless the handle is cancelled first.
call_soon   the callback runs once in a later iteration of the loop.
transports  sendto / write transmit (or report a failure later through error_received); close() makes is_closing()
            true; create_datagram_endpoint / create_connection return a fresh open transport or raise OSError.
wait_for    runs the awaitable; raises TimeoutError after the delay, cancelling it.
"""
from __future__ import annotations

import asyncio

import z3

from .aio import NOT_MODELLED, Coro, ContractCoro
from .interp import PyRaise
from .sym import SInt, SBool, Unsupported, mk_bool, mk_int, iterm, bterm

PENDING, RESULT, EXCEPTION, CANCELLED = 0, 1, 2, 3


class ProtoGhost:
    """ghost state of one protocol object under verification"""

    def __init__(self):
        self.loop = GLoop("current")
        self.proto = None
        self.tx = 0                 # transmissions (int or SInt)
        self.tx_log = []            # payloads, in order
        self.armed = 0              # armed timeouts: timers + call_soon callbacks (int or SInt)
        self.open = []              # transports created for this object and not yet closed
        self.events = []            # ('set_result', fut, value) ('set_exception', fut, exc) ('cancel', fut) ...
        self.validated = []         # (data, outcome) of every validator call
        self.me = 1                 # id of the current task
        self.multi_caller = False
        self.delays = []            # (site, delay value, callback)
        self.suspensions = []       # hooks run at every suspension point: f(ex, what)
        self.on_tx = []             # hooks run at every transmission: f(ex, transport, payload)
        self.connect_failed = False
        self.send_failed = False
        self.sync_send_errors = True    # model the synchronous error_received of a failing datagram send
        self.lock_events = []


def pg(ex):
    if ex.ghost is None or not isinstance(ex.ghost, ProtoGhost):
        ex.ghost = ProtoGhost()
    return ex.ghost


def _t(v):
    return iterm(v)


def _inc(v, d):
    if isinstance(v, int):
        return v + d
    return mk_int(iterm(v) + d)


class GLoop:
    _pyvc_model = True

    def __init__(self, name):
        self.name = name
        self._closed = None

    def is_closed(self):
        """the loop code runs on is open; a loop the object was used from earlier (successive asyncio.run calls) may or
        may not have been closed meanwhile - both are explored; once closed a loop stays closed"""
        if self.name == "current":
            return False
        if self._closed is None:
            from . import interp
            self._closed = interp.current().choose(2, tag="previous_loop.closed") == 1
        return self._closed

    def is_running(self):
        return self.name == "current"

    def create_future(self):
        from . import interp
        ex = interp.current()
        f = GFuture(PENDING)
        ex.new_object(f)
        return f

    def call_later(self, delay, cb, *args):
        from . import interp
        ex = interp.current()
        g = pg(ex)
        h = GTimer(True, delay, cb)
        ex.new_object(h)
        g.armed = _inc(g.armed, 1)
        g.delays.append(("call_later", delay, cb))
        g.events.append(("call_later", delay, cb, h))
        return h

    def time(self):
        """the loop's clock: a number that never decreases; it may advance at every suspension point"""
        from . import interp
        return now(interp.current())

    def call_at(self, when, cb, *args):
        from . import interp
        ex = interp.current()
        # same as call_later with the delay that is left at the moment of the call
        delay = mk_int(iterm(when) - iterm(now(ex)))
        return self.call_later(delay, cb, *args)

    def call_soon(self, cb, *args):
        from . import interp
        ex = interp.current()
        g = pg(ex)
        g.armed = _inc(g.armed, 1)
        g.events.append(("call_soon", cb))
        return ex.new_object(GTimer(True, 0, cb))

    def create_datagram_endpoint(self, factory, remote_addr=None, **kw):
        return GConnect(self, factory, "udp")

    def create_connection(self, factory, host=None, port=None, **kw):
        return GConnect(self, factory, "tcp")


class GConnect:
    """awaitable returned by create_datagram_endpoint / create_connection"""
    _pyvc_model = True

    def __init__(self, loop, factory, kind):
        self.loop = loop
        self.factory = factory
        self.kind = kind

    def _pyvc_await(self, ex):
        g = pg(ex)
        suspend(ex, "connect")
        k = ex.choose(3 if self.kind == "tcp" else 2, tag="connect")
        if k == 1:
            g.connect_failed = True
            raise PyRaise(OSError("connect failed"))
        if k == 2:
            g.connect_failed = True
            raise PyRaise(ConnectionRefusedError("connection refused"))
        t = GTransport(self.kind, False, g.loop)
        ex.new_object(t)
        g.open.append(t)
        proto = ex.call(self.factory, [], {})
        ex.call(ex.getattr(proto, "connection_made"), [t], {})
        g.events.append(("connected", t))
        return (t, proto)


class GTransport:
    _pyvc_model = True

    def __init__(self, kind, closing=False, loop=None):
        self.kind = kind
        self.closing = closing
        self.loop = loop            # the event loop the transport was created on

    def is_closing(self):
        return self.closing

    def close(self):
        from . import interp
        ex = interp.current()
        g = pg(ex)
        self.closing = True
        g.open = [t for t in g.open if t is not self]
        g.events.append(("close", self))

    def _send(self, payload):
        from . import interp
        ex = interp.current()
        g = pg(ex)
        g.tx = _inc(g.tx, 1)
        g.tx_log.append(payload)
        g.events.append(("tx", payload))
        for hook in g.on_tx:
            hook(ex, self, payload)

    def sendto(self, payload, addr=None):
        # selector_events._SelectorDatagramTransport.sendto: an OSError of socket.send() is reported by calling
        # protocol.error_received(exc) *synchronously* before sendto returns (nothing is transmitted then)
        from . import interp
        ex = interp.current()
        g = pg(ex)
        if g.proto is not None and g.sync_send_errors and ex.choose(2, tag="sendto.fails") == 1:
            g.send_failed = True
            g.events.append(("send_error", payload))
            ex.call(ex.getattr(g.proto, "error_received"), [ex.new_object(OSError("sendto failed"))], {})
            return
        self._send(payload)

    def write(self, payload):
        self._send(payload)

    def get_extra_info(self, name, default=None):
        if name == "socket" and self.kind == "tcp":
            return GSocket()
        return default

    def _pyvc_truth(self, ex):
        return True


class GSocket:
    """the socket behind a TCP transport: setsockopt / ioctl either succeed or raise OSError (e.g. an option the
    platform does not know); one choice per socket, at the first call"""
    _pyvc_model = True

    def __init__(self):
        self.fails = None

    def _call(self):
        from . import interp
        ex = interp.current()
        if self.fails is None:
            self.fails = ex.choose(2, tag="setsockopt.fails") == 1
            if self.fails:
                pg(ex).connect_failed = True        # this attempt ends before anything is transmitted
                raise PyRaise(OSError("setsockopt failed"))

    def setsockopt(self, *a):
        self._call()

    def ioctl(self, *a):
        self._call()

    def _pyvc_truth(self, ex):
        return True


class GTimer:
    _pyvc_model = True

    def __init__(self, armed, delay, cb, present=True):
        self.armed = armed
        self.delay = delay
        self.cb = cb
        self.present = present        # False/SBool: stands for "None or a handle" without forking until tested

    def cancel(self):
        from . import interp
        ex = interp.current()
        g = pg(ex)
        a = self.armed
        if isinstance(a, SBool):
            # no fork: the count of armed timeouts drops by one exactly if this handle was still armed
            g.armed = mk_int(iterm(g.armed) - z3.If(a.t, 1, 0))
        elif a:
            g.armed = _inc(g.armed, -1)
        self.armed = False
        g.events.append(("timer.cancel", self))

    def _pyvc_truth(self, ex):
        return self.present


class GFuture:
    _pyvc_model = True

    def __init__(self, state):
        self.state = state          # int or SInt in 0..3
        self.value = None
        self.exc = None

    def _is(self, ex, st):
        s = self.state
        if isinstance(s, int):
            return s == st
        return ex.branch(_t(s) == st, tag=f"future.state=={st}")

    def _pending(self, ex):
        return self._is(ex, PENDING)

    def done(self):
        s = self.state
        if isinstance(s, int):
            return s != PENDING
        return mk_bool(_t(s) != PENDING)

    def cancelled(self):
        s = self.state
        if isinstance(s, int):
            return s == CANCELLED
        return mk_bool(_t(s) == CANCELLED)

    def set_result(self, v):
        from . import interp
        ex = interp.current()
        if not self._pending(ex):
            raise PyRaise(asyncio.InvalidStateError("invalid state"))
        self.state = RESULT
        self.value = v
        pg(ex).events.append(("set_result", self, v))

    def set_exception(self, e):
        from . import interp
        ex = interp.current()
        if not self._pending(ex):
            raise PyRaise(asyncio.InvalidStateError("invalid state"))
        self.state = EXCEPTION
        self.exc = e
        pg(ex).events.append(("set_exception", self, e))

    def cancel(self, msg=None):
        from . import interp
        ex = interp.current()
        if not self._pending(ex):
            return False
        self.state = CANCELLED
        pg(ex).events.append(("cancel", self))
        return True

    def result(self):
        from . import interp
        ex = interp.current()
        if self._is(ex, RESULT):
            return self.value
        if self._is(ex, EXCEPTION):
            e = self.exc
            if callable(e) and not isinstance(e, type) and not isinstance(e, BaseException):
                e = e(ex)             # chosen when it is raised
            if isinstance(e, type):
                e = e()
            raise PyRaise(e)
        if self._is(ex, CANCELLED):
            raise PyRaise(asyncio.CancelledError())
        raise PyRaise(asyncio.InvalidStateError("Result is not ready."))

    def _pyvc_truth(self, ex):
        return True

    def _pyvc_await(self, ex):
        """await fut: suspension point, then the future is done (or the awaiting task was cancelled, which cancels
        the future it waits for)"""
        suspend(ex, ("future", self))
        if self._is(ex, PENDING):
            # the only way to resume on a pending future is cancellation of the task: asyncio cancels the future
            self.state = CANCELLED
            raise PyRaise(asyncio.CancelledError())
        return self.result()


class MaybeBytes:
    """`None or some bytes` that is never inspected by the segment under verification (truth value only)"""
    _pyvc_model = True

    def __init__(self, present):
        self.present = present

    def _pyvc_truth(self, ex):
        return self.present


class GLock:
    _pyvc_model = True

    def __init__(self, locked=False, owner=0):
        self.is_locked = locked      # bool or SBool
        self.owner = owner

    def locked(self):
        return self.is_locked

    def acquire(self):
        return GAcquire(self)

    def release(self):
        from . import interp
        ex = interp.current()
        g = pg(ex)
        l = self.is_locked
        if isinstance(l, SBool):
            l = ex.branch(l.t, tag="lock.locked")
        if not l:
            raise PyRaise(RuntimeError("Lock is not acquired."))
        g.lock_events.append(("release", self, self.owner, g.me))
        self.is_locked = False
        self.owner = 0

    def _pyvc_truth(self, ex):
        return True


class GAcquire:
    _pyvc_model = True

    def __init__(self, lock):
        self.lock = lock

    def _pyvc_await(self, ex):
        g = pg(ex)
        l = self.lock.is_locked
        free = (l is False) or (not isinstance(l, bool) and ex.known(z3.Not(bterm(l))))
        if not free or g.multi_caller:
            # T4: acquire() on a free lock with no waiters completes without suspending
            suspend(ex, ("lock", self.lock))
            if ex.choose(2, tag="cancelled.while.queued") == 1:
                raise PyRaise(asyncio.CancelledError())
            if self.lock.owner == 2 and self.lock.is_locked is True and getattr(g, "other_started", False):
                # another task got the lock first; we are resumed when it has released it (its request is over)
                g.lock_events.append(("release", self.lock, 2, 2))
                self.lock.is_locked, self.lock.owner = False, 0
                g.other_started = False
                f = getattr(g.proto, "response_future", None)
                if f is not None and f.state == PENDING:
                    f.state = CANCELLED
        # resumes when the lock is free (T4: only a holder releases; waiters are served in turn)
        self.lock.is_locked = True
        self.lock.owner = g.me
        g.lock_events.append(("acquire", self.lock, g.me))
        return True


class GWaitFor:
    _pyvc_model = True

    def __init__(self, aw, timeout):
        self.aw = aw
        self.timeout = timeout

    def _pyvc_await(self, ex):
        from . import aio
        g = pg(ex)
        g.delays.append(("wait_for", self.timeout, None))
        if ex.choose(2, tag="wait_for") == 1:
            # the inner awaitable is cancelled at a suspension point before it had an effect that survives
            g.connect_failed = True
            raise PyRaise(asyncio.TimeoutError())
        return aio.await_value(ex, self.aw)


class GShield:
    """asyncio.shield(aw): aw runs as a task of its own; the awaiting task is woken through a done-callback, i.e. it
    resumes in a later iteration of the loop than the one in which aw finished (other tasks run in between)"""
    _pyvc_model = True

    def __init__(self, aw):
        self.aw = aw

    def _pyvc_await(self, ex):
        from . import aio
        exc = None
        v = None
        try:
            v = aio.await_value(ex, self.aw)
        except PyRaise as pr:
            exc = pr
        suspend(ex, "shield")
        if exc is not None:
            raise exc
        return v


def now(ex):
    g = pg(ex)
    if getattr(g, "now", None) is None:
        g.now = ex.fresh_int("loop_time")
    return g.now


def suspend(ex, what):
    """a suspension point of the current task: callbacks (and, with several callers, other tasks) run here"""
    g = pg(ex)
    if getattr(g, "now", None) is not None:
        later = ex.fresh_int("loop_time")
        ex.fact(later.t >= iterm(g.now))
        g.now = later
    for hook in g.suspensions:
        hook(ex, what)


def maybe_model(ex, fn, args, kw):
    if fn is asyncio.get_running_loop or fn is asyncio.get_event_loop:
        return pg(ex).loop
    if fn is asyncio.Lock:
        return ex.new_object(GLock(False, 0))
    if fn is asyncio.wait_for:
        timeout = kw.get("timeout", args[1] if len(args) > 1 else None)
        return GWaitFor(args[0], timeout)
    if fn is asyncio.shield:
        return GShield(args[0])
    if fn is asyncio.sleep:
        raise Unsupported("asyncio.sleep")
    mod = getattr(fn, "__module__", None) or ""
    if (mod == "asyncio" or mod.startswith("asyncio.")) and callable(fn) and not (
            isinstance(fn, type) and issubclass(fn, BaseException)):
        # running the real asyncio function here (without an event loop) would produce behaviour that is neither the
        # code's nor the environment's: the unit is undecided instead
        raise Unsupported(f"asyncio.{getattr(fn, '__name__', fn)} is not modelled (T4)")
    return NOT_MODELLED
