"""Scenario units over the inverter classes: the orchestration code of ET/DT/ES is executed symbolically with the
transport (`Inverter._read_from_socket`) under contract.  Ghost state: the request log, the refusal set of the
simulated inverter and (for C17/C19) an assumed register file."""
from __future__ import annotations

import ast

import z3

from . import contracts, interp, models, aio
from .interp import PyRaise
from .models import MBytesIO
from .sbytes import SBytes, ESeg, ASeg, zt
from .sym import SInt, SBool, Sym, Unsupported, mk_bool, mk_int, iterm, is_sym


class InvGhost:
    def __init__(self):
        self.requests = []            # (kind, command) in the order handed to the transport
        self.refused = {}             # command key -> SBool: the inverter refuses this block with ILLEGAL DATA ADDRESS
        self.consistent_refusal = True
        self.allow_failures = False   # transient RequestFailedException outcomes
        self.allow_other_rejections = False
        self.regs = None              # register-file model (C17/C19)
        self.never_refused = set()    # command keys of the mandatory blocks
        self.script = []              # outcome of every transport request, in order (the witness of a scenario)


def ghost(ex):
    if ex.ghost is None:
        ex.ghost = InvGhost()
    return ex.ghost


def command_key(command):
    r = command.request
    if isinstance(r, SBytes) and r.is_concrete():
        r = bytes(r.to_bytes())
    if isinstance(r, bytes):
        return (type(command).__name__, r[:6] if len(r) <= 12 else r)
    fa, v = getattr(command, "first_address", None), getattr(command, "value", None)
    if isinstance(fa, int) and isinstance(v, int):
        return (type(command).__name__, fa, v)
    return ("obj", id(command))


def request_hex(command):
    """the request bytes of a command as hex text when they are concrete (lets a native replay match the scripted
    outcome to the request instead of to its position), else None"""
    r = getattr(command, "request", None)
    if isinstance(r, SBytes) and r.is_concrete():
        r = bytes(r.to_bytes())
    return r.hex() if isinstance(r, (bytes, bytearray)) else None


def request_kind(ex, command):
    import contracts.inverter as ci
    return contracts.eval_spec_value(ex, ci.request_kind, [command])


def payload_length(ex, command):
    from goodwe.protocol import (Aa55ProtocolCommand, ModbusRtuProtocolCommand, ModbusTcpProtocolCommand)
    if isinstance(command, (ModbusRtuProtocolCommand, ModbusTcpProtocolCommand)):
        r = command.request
        pos = 1 if isinstance(command, ModbusRtuProtocolCommand) else 7
        cmdbyte = r.elem_at(ex, pos) if isinstance(r, SBytes) else r[pos]
        if cmdbyte == 3:
            v = command.value
            return v * 2 if isinstance(v, int) else mk_int(iterm(v) * 2)
        return 4
    n = ex.fresh_int("plen")
    ex.fact(z3.And(n.t >= 0, n.t <= 255))
    return n


def make_response(ex, command, payload):
    from goodwe.protocol import (ProtocolResponse, Aa55ProtocolCommand, ModbusRtuProtocolCommand,
                                 ModbusTcpProtocolCommand)
    resp = ex.new_object(ProtocolResponse.__new__(ProtocolResponse))
    if isinstance(command, ModbusRtuProtocolCommand):
        hdr, tail = 5, 2
    elif isinstance(command, ModbusTcpProtocolCommand):
        hdr, tail = 9, 0
    elif isinstance(command, Aa55ProtocolCommand):
        hdr, tail = 7, 2
    else:
        hdr, tail = 0, 0

    frame = ex.fresh_arr("frame")
    resp.raw_data = SBytes([ASeg(frame, 0, hdr)] + payload.copy(False).segs + [ASeg(frame, hdr, tail)])
    resp.command = command
    resp._bytes = ex.new_object(MBytesIO(payload))
    return resp


def note_protocol(ex, proto):
    g = ghost(ex)
    if hasattr(g, "protocols") and proto is not None and not any(p is proto for p in g.protocols):
        g.protocols.append(proto)


def frame_shape(command):
    from goodwe.protocol import (Aa55ProtocolCommand, ModbusRtuProtocolCommand, ModbusTcpProtocolCommand)
    if isinstance(command, ModbusRtuProtocolCommand):
        return 5, 2
    if isinstance(command, ModbusTcpProtocolCommand):
        return 9, 0
    if isinstance(command, Aa55ProtocolCommand):
        return 7, 2
    return 0, 0


def make_framed_response(ex, command, n):
    """response whose raw frame is one array: header, payload of n bytes, trailer; the payload is a view of it"""
    from goodwe.protocol import ProtocolResponse
    hdr, tail = frame_shape(command)
    frame = ex.fresh_arr("frame")
    nt = zt(n)
    resp = ex.new_object(ProtocolResponse.__new__(ProtocolResponse))
    resp.raw_data = SBytes([ASeg(frame, 0, nt + (hdr + tail))])
    payload = SBytes([ASeg(frame, hdr, nt)])
    resp.command = command
    resp._bytes = ex.new_object(MBytesIO(payload))
    return resp, payload


def socket_outcomes(ex, inv, command, excs):
    """which outcomes of the transport are explored for this request (prunes branches that the ghost state of the
    simulated inverter already excludes)"""
    from goodwe.exceptions import RequestRejectedException, RequestFailedException
    g = ghost(ex)
    note_protocol(ex, getattr(inv, "_protocol", None))
    key = command_key(command)
    allow_return = True
    out = []
    for E in excs:
        if E is RequestFailedException and not g.allow_failures:
            continue
        if E is RequestRejectedException:
            if key in g.never_refused and not g.allow_other_rejections:
                continue
            if g.consistent_refusal and key in g.refused and not g.allow_other_rejections:
                if ex.known(z3.Not(g.refused[key].t)):
                    continue
        out.append(E)
    if g.consistent_refusal and key in g.refused and ex.known(g.refused[key].t):
        allow_return = False
    return allow_return, out


def socket_result(ex, inv, command):
    g = ghost(ex)
    kind = request_kind(ex, command)
    g.requests.append((kind, command))
    key = command_key(command)
    if g.consistent_refusal:
        if key not in g.refused:
            g.refused[key] = ex.fresh_bool("refused")
        ex.assume(mk_bool(z3.Not(g.refused[key].t)))
    if g.regs is not None:
        return g.regs.answer(ex, inv, command, kind)
    n = payload_length(ex, command)
    resp, payload = make_framed_response(ex, command, n)
    g.script.append({"kind": "return", "payload": payload, "request": request_hex(command)})
    return resp


def socket_raised(ex, E, inv, command):
    from goodwe.exceptions import RequestRejectedException, RequestFailedException
    from goodwe.modbus import ILLEGAL_DATA_ADDRESS
    g = ghost(ex)
    kind = request_kind(ex, command)
    g.requests.append((kind, command))
    key = command_key(command)
    if E is RequestRejectedException:
        opts = [ILLEGAL_DATA_ADDRESS] + (["ILLEGAL FUNCTION"] if g.allow_other_rejections else [])
        msg = opts[ex.choose(len(opts), tag="reject.reason")]
        if key in g.never_refused:
            ex.assume(False)
        if msg == ILLEGAL_DATA_ADDRESS and g.consistent_refusal:
            if key not in g.refused:
                g.refused[key] = ex.fresh_bool("refused")
            ex.assume(g.refused[key])
        if g.regs is not None and not g.regs.may_refuse(ex, command, kind):
            ex.assume(False)
        g.script.append({"kind": "raise", "cls": "RequestRejectedException", "message": msg,
                         "request": request_hex(command)})
        return ex.new_object(RequestRejectedException(msg))
    if E is RequestFailedException:
        if not g.allow_failures:
            ex.assume(False)
        e = ex.new_object(RequestFailedException("no valid response", ex.fresh_int("failures")))
        g.script.append({"kind": "raise", "cls": "RequestFailedException", "message": "no valid response",
                         "request": request_hex(command)})
        return e
    raise Unsupported(f"socket_raised {E}")


# ---- C14: read footprint of a row for a concrete block command -----------------------------------------------------------
_FOOT = {}


def footprint(ex, s, first, nbytes):
    """[(pos, size)] of every read a row performs on a full-length answer of the block (first, nbytes/2 registers)"""
    key = (id(s), first, nbytes)
    if key in _FOOT:
        return _FOOT[key]
    from .sensor_harness import make_response as mk
    reads = set()
    bad = []

    def body(ex2):
        payload = SBytes.fresh(ex2, "payload", nbytes)
        resp = mk(ex2, payload, "modbus", first)
        ev0 = len(ex2.events)
        try:
            ex2.call(s.read, [resp], {})
        except PyRaise:
            pass
        for e in ex2.events[ev0:]:
            if e[0] == "read":
                p = ex2.concretize(iterm(e[1])) if not isinstance(e[1], int) else e[1]
                reads.add((p if isinstance(p, int) else str(p), e[2]))
            if e[0] == "seek" and isinstance(e[1], int) and e[1] < 0:
                bad.append(e[1])
        return None

    saved = interp._CUR
    try:
        reg = {k: v for k, v in ex.contracts.items() if not k.endswith(".read")}     # execute the rows, not their lemma
        interp.explore(ex.world, body, "footprint", reg, max_paths=4000)
    finally:
        interp._CUR = saved
    out = sorted(reads, key=str)
    _FOOT[key] = out
    return out


_WINDOW_SEEN = {}      # unit name -> rows already checked in this unit (one obligation per block and row per unit)


def window_ok(ex, response, sensors):
    """C14 at a _map_response call site: one obligation per row, named by block and row id"""
    from goodwe.protocol import ModbusRtuProtocolCommand, ModbusTcpProtocolCommand
    if isinstance(response, Sym):
        return True
    cmd = response.command
    if not isinstance(cmd, (ModbusRtuProtocolCommand, ModbusTcpProtocolCommand)):
        return True
    first, count = cmd.first_address, cmd.value
    if not (isinstance(first, int) and isinstance(count, int)):
        return True
    nbytes = 2 * count
    seen = _WINDOW_SEEN.setdefault(ex.unit, set())
    for s in sensors:
        k = (first, count, id(s))
        if k in seen:
            continue
        seen.add(k)
        fp = footprint(ex, s, first, nbytes)
        bad = [(p, n) for p, n in fp if not isinstance(p, int) or p < 0 or p + n > nbytes]
        saved = ex.unit
        ex.unit = f"window:block@{first}+{count}"
        try:
            ex.check(f"{s.id_}/C14_row_inside_fetched_window", not bad,
                     detail=f"{type(s).__name__} at register {s.offset}: reads {bad} outside 0..{nbytes}")
        finally:
            ex.unit = saved
    return True


def map_response_result(ex, response, sensors):
    """result of _map_response under contract: arbitrary values, except for the ids a scenario focuses on, whose real
    rows are executed on the response (a ValueError becomes None exactly as in the real body)"""
    g = ghost(ex)
    focus = getattr(g, "focus_ids", ())
    out = {}
    for s in sensors:
        if s.id_ in focus:
            saved = ex.contracts
            ex.contracts = {k: v for k, v in saved.items() if not k.endswith(".read")}
            try:
                out[s.id_] = ex.call(s.read, [response], {})
            except PyRaise as pr:
                if not isinstance(pr.exc, ValueError):
                    raise
                out[s.id_] = None
            finally:
                ex.contracts = saved
        else:
            out[s.id_] = ex.fresh_any("val_" + s.id_)
    return out


def install_hooks():
    import contracts.inverter as ci
    ci.window_ok._pyvc_sym = window_ok


# ---- running coroutines of the inverter classes ----------------------------------------------------------------------------
def run_coro(ex, fn, *args):
    """run the *body* of a (bound) coroutine method of the code under verification, even if it has a contract"""
    info = ex.world.funcinfo(fn)
    if info is not None and info.is_async:
        from .models import defining_class
        f = getattr(fn, "__func__", fn)
        selfobj = getattr(fn, "__self__", None)
        allargs = ([selfobj] if selfobj is not None else []) + list(args)
        bound = ex.bind_args(info.node.args, list(f.__defaults__ or ()), dict(f.__kwdefaults__ or {}), allargs, {},
                             info.qualname)
        cls = defining_class(ex, info, fn)
        return aio.Coro(ex, info, bound, f.__globals__, cls, None, selfobj, fn).run(ex)
    c = ex.call(fn, list(args), {})
    return aio.await_value(ex, c)


def new_inverter(ex, family, port=8899):
    from goodwe.et import ET
    from goodwe.dt import DT
    from goodwe.es import ES
    cls = {"ET": ET, "DT": DT, "ES": ES}[family]
    inv = cls("host", port, 0, 1, 3)         # concrete construction by the real __init__ (ground evaluation)
    sh = shared_ids(ex)
    ex.new_object(inv)
    ex.new_object(inv._protocol)
    for v in vars(inv).values():
        # containers created by __init__ belong to the object - unless they are reachable from the class or a module
        if isinstance(v, (dict, list, set)) and id(v) not in sh:
            ex.new_object(v)
    return inv


def ids(seq):
    return [s.id_ for s in seq]


def only_reads(ex, name="C18_only_read_requests"):
    g = ghost(ex)
    bad = [k for k, c in g.requests if k == "write"]
    ex.check(name, not bad, detail=f"{len(bad)} write request(s) among {len(g.requests)}")


# ---- ET ----------------------------------------------------------------------------------------------------------------------
def et_filters():
    from goodwe.et import ET
    base = ET._ET__all_sensors
    meter = ET._ET__all_sensors_meter
    out = {}
    for sp in (0, 1):
        for pvf in (0, 1):
            s = base
            if pvf:
                s = tuple(x for x in s if 'pv4' not in x.id_)
                s = tuple(x for x in s if 'pv3' not in x.id_)
            if sp:
                s = tuple(filter(ET._single_phase_only, s))
            out[("sensors", sp, pvf)] = s
        for lvl in ("full", "lt58", "lt45"):
            m = tuple(filter(ET._single_phase_only, meter)) if sp else meter
            if lvl == "lt58":
                m = tuple(filter(ET._not_extended_meter2, m))
            if lvl == "lt45":
                m = tuple(filter(ET._not_extended_meter, m))
            out[("meter", sp, lvl)] = m
    return out


def et_inv(inv):
    """object invariant of ET between public calls (after read_device_info): the capability flags and the sensor
    tuples agree.  Returns (ok, description)"""
    f = et_filters()
    sens = [k for k, v in f.items() if k[0] == "sensors" and ids(v) == ids(inv._sensors)]
    if not sens:
        return False, "_sensors is not one of the model-filtered variants"
    lvl = "full" if inv._has_meter_extended2 else ("lt58" if inv._has_meter_extended else "lt45")
    if inv._has_meter_extended2 and not inv._has_meter_extended:
        return False, "extended-2 without extended"
    ok = any(ids(inv._sensors_meter) == ids(f[("meter", sp, lvl)]) for sp in (0, 1))
    return ok, f"meter tuple does not match capability level {lvl}"


def et_states():
    f = et_filters()
    out = []
    for sp in (0, 1):
        for pvf in (0, 1):
            for lvl, e2, e1 in (("full", True, True), ("lt58", False, True), ("lt45", False, False)):
                for mppt in (False, True):
                    for b2 in (False, True):
                        out.append(dict(sp=sp, pvf=pvf, lvl=lvl, e2=e2, e1=e1, mppt=mppt, b2=b2))
    return out


def et_apply_state(ex, inv, st):
    f = et_filters()
    ex.setattr(inv, "_sensors", f[("sensors", st["sp"], st["pvf"])])
    ex.setattr(inv, "_sensors_meter", f[("meter", st["sp"], st["lvl"])])
    ex.setattr(inv, "_has_meter_extended2", st["e2"])
    ex.setattr(inv, "_has_meter_extended", st["e1"])
    ex.setattr(inv, "_has_mppt", st["mppt"])
    ex.setattr(inv, "_has_battery2", st["b2"])
    ex.setattr(inv, "serial_number", ex.fresh_str("serial"))


def et_device_info(ex):
    """read_device_info of ET from a fresh object: establishes the invariant, transmits only reads, raises only
    InverterError"""
    from goodwe.exceptions import InverterError
    install_hooks()
    inv = new_inverter(ex, "ET")
    g = ghost(ex)
    g.allow_failures = True
    g.allow_other_rejections = True
    ex.inputs = {"family": "ET", "method": "read_device_info", "args": [], "script": g.script, "variant": 0}
    try:
        run_coro(ex, inv.read_device_info)
    except PyRaise as pr:
        ex.check("C09_only_InverterError", isinstance(pr.exc, InverterError), detail=repr(pr.exc))
        only_reads(ex)
        return
    ok, why = et_inv(inv)
    ex.check("C15_invariant_established", ok, detail=why)
    only_reads(ex)
    check_own_state_only(ex, inv)


def et_runtime(ex, state):
    """two consecutive read_runtime_data() calls from one invariant state against an inverter with a fixed set of
    refused blocks: keys == sensors(), invariant preserved, success no later than the second call, rows inside windows"""
    from goodwe.exceptions import RequestRejectedException
    install_hooks()
    inv = new_inverter(ex, "ET")
    st = et_states()[state]
    et_apply_state(ex, inv, st)
    g = ghost(ex)
    # the refusal set of C15 ranges over the optional blocks; running data and the basic meter block are mandatory
    g.never_refused = {command_key(inv._READ_RUNNING_DATA), command_key(inv._READ_METER_DATA)}
    ex.inputs = {"family": "ET", "state_index": state, "script": g.script, "state": str(st)}
    # histories: the caller may have asked for the sensor list before the first read (anything the object memoizes
    # then must not outlive a capability change)
    ex.inputs["sensors_first"] = bool(ex.choose(2, tag="sensors().called.first"))
    if ex.inputs["sensors_first"]:
        ex.call(inv.sensors, [], {})
    raised_first = False
    for call in (1, 2):
        try:
            data = run_coro(ex, inv.read_runtime_data)
        except PyRaise as pr:
            ex.check("C15_only_refusal_can_fail_the_call", isinstance(pr.exc, RequestRejectedException),
                     detail=repr(pr.exc))
            if call == 2:
                ex.check("C15_succeeds_by_second_call", not raised_first,
                         detail=f"both calls raised from state {st}")
            raised_first = True
            ok, why = et_inv(inv)
            ex.check("C15_invariant_preserved", ok, detail=why)
            continue
        if call == 2:
            ex.check("C15_succeeds_by_second_call", True)
        want = ids(ex.call(inv.sensors, [], {}))
        got = list(data.keys())
        ex.check("C15_keys_equal_sensors", sorted(set(got)) == sorted(set(want)),
                 detail=f"missing {sorted(set(want) - set(got))[:5]} extra {sorted(set(got) - set(want))[:5]}")
        ok, why = et_inv(inv)
        ex.check("C15_invariant_preserved", ok, detail=why)
    only_reads(ex)


# ---- DT ----------------------------------------------------------------------------------------------------------------------
def dt_filters():
    from goodwe.dt import DT
    base = DT._DT__all_sensors
    out = {}
    for sp in (0, 1):
        for pv2 in (0, 1):
            s = tuple(filter(DT._single_phase_only, base)) if sp else base
            if pv2:
                s = tuple(filter(DT._pv1_pv2_only, s))
            out[(sp, pv2)] = s
    return out


def dt_inv(inv):
    return any(ids(v) == ids(inv._sensors) for v in dt_filters().values()), "_sensors is not a model-filtered variant"


def dt_device_info(ex):
    from goodwe.exceptions import InverterError
    install_hooks()
    inv = new_inverter(ex, "DT")
    g = ghost(ex)
    g.allow_failures = True
    g.allow_other_rejections = True
    ex.inputs = {"family": "DT", "method": "read_device_info", "args": [], "script": g.script, "variant": 0}
    try:
        run_coro(ex, inv.read_device_info)
    except PyRaise as pr:
        ex.check("C09_only_InverterError", isinstance(pr.exc, InverterError), detail=repr(pr.exc))
        only_reads(ex)
        return
    ok, why = dt_inv(inv)
    ex.check("C15_invariant_established", ok, detail=why)
    only_reads(ex)
    check_own_state_only(ex, inv)


def dt_runtime(ex, state):
    from goodwe.exceptions import RequestRejectedException
    install_hooks()
    inv = new_inverter(ex, "DT")
    combos = [(k, m) for k in sorted(dt_filters()) for m in (True, False)]
    (sp, pv2), meter = combos[state]
    ex.setattr(inv, "_sensors", dt_filters()[(sp, pv2)])
    ex.setattr(inv, "_has_meter", meter)
    ghost(ex).never_refused = {command_key(inv._READ_RUNNING_DATA)}
    ex.inputs = {"family": "DT", "state_index": state, "script": ghost(ex).script, "state": str(combos[state])}
    ex.inputs["sensors_first"] = bool(ex.choose(2, tag="sensors().called.first"))
    if ex.inputs["sensors_first"]:
        ex.call(inv.sensors, [], {})
    raised_first = False
    for call in (1, 2):
        try:
            data = run_coro(ex, inv.read_runtime_data)
        except PyRaise as pr:
            ex.check("C15_only_refusal_can_fail_the_call", isinstance(pr.exc, RequestRejectedException),
                     detail=repr(pr.exc))
            if call == 2:
                ex.check("C15_succeeds_by_second_call", not raised_first, detail="both calls raised")
            raised_first = True
            continue
        if call == 2:
            ex.check("C15_succeeds_by_second_call", True)
        want = ids(ex.call(inv.sensors, [], {}))
        got = list(data.keys())
        ex.check("C15_keys_equal_sensors", sorted(set(got)) == sorted(set(want)),
                 detail=f"missing {sorted(set(want) - set(got))[:5]} extra {sorted(set(got) - set(want))[:5]}")
        ok, why = dt_inv(inv)
        ex.check("C15_invariant_preserved", ok, detail=why)
    only_reads(ex)


# ---- ES ----------------------------------------------------------------------------------------------------------------------
def es_device_info(ex):
    from goodwe.exceptions import InverterError
    install_hooks()
    inv = new_inverter(ex, "ES")
    g = ghost(ex)
    g.allow_failures = True
    g.allow_other_rejections = True
    ex.inputs = {"family": "ES", "method": "read_device_info", "args": [], "script": g.script, "variant": 0}
    try:
        run_coro(ex, inv.read_device_info)
    except PyRaise as pr:
        ex.check("C09_only_InverterError", isinstance(pr.exc, InverterError), detail=repr(pr.exc))
    only_reads(ex)


def es_runtime(ex):
    install_hooks()
    inv = new_inverter(ex, "ES")
    ghost(ex).never_refused = {command_key(inv._READ_DEVICE_RUNNING_DATA)}
    ex.inputs = {}
    for call in (1, 2):
        try:
            data = run_coro(ex, inv.read_runtime_data)
        except PyRaise as pr:
            ex.check("C15_only_refusal_can_fail_the_call", False, detail=repr(pr.exc))
            continue
        want = ids(ex.call(inv.sensors, [], {}))
        ex.check("C15_keys_equal_sensors", sorted(data.keys()) == sorted(set(want)))
    only_reads(ex)


def execute_outcomes(ex, command, excs, protocol=None):
    from goodwe.exceptions import RequestRejectedException, RequestFailedException, MaxRetriesException
    g = ghost(ex)
    note_protocol(ex, protocol)
    out = []
    for E in excs:
        if E in (RequestFailedException, MaxRetriesException) and not g.allow_failures:
            continue
        out.append(E)
    return True, out


def execute_raised(ex, E, command):
    from goodwe.exceptions import RequestRejectedException, RequestFailedException, MaxRetriesException
    g = ghost(ex)
    g.requests.append((request_kind(ex, command), command))
    g.execute_raised = E
    if E is RequestRejectedException:
        from .models import fresh_strid
        g.execute_rejection = ex.new_object(RequestRejectedException(fresh_strid(ex, "reason")))
        return g.execute_rejection
    if E is MaxRetriesException:
        return ex.new_object(MaxRetriesException())
    return ex.new_object(RequestFailedException("no valid response"))


# ---- C09: the failure counter of Inverter._read_from_socket -----------------------------------------------------------------
def read_from_socket_counter(ex):
    """the real body of Inverter._read_from_socket against ProtocolCommand.execute's contract, from an arbitrary
    counter value"""
    from goodwe.exceptions import RequestFailedException, RequestRejectedException, InverterError
    install_hooks()
    inv = new_inverter(ex, "ET")
    g = ghost(ex)
    g.allow_failures = True
    g.consistent_refusal = False
    count = ex.fresh_int("count")
    ex.assume(mk_bool(count.t >= 0))
    ex.setattr(inv, "_consecutive_failures_count", count)
    ex.inputs = {"count": count}
    cmd = inv._READ_RUNNING_DATA
    info = ex.world.func("goodwe.inverter.Inverter._read_from_socket")
    fn = ex.world.resolve("goodwe.inverter.Inverter._read_from_socket")
    coro = aio.Coro(ex, info, {"self": inv, "command": cmd}, fn.__globals__, type(inv).__mro__[1], None, inv, fn)
    try:
        coro.run(ex)
    except PyRaise as pr:
        e = pr.exc
        ex.check("C09_C15_raises_only_failed_or_rejected", isinstance(e, (RequestFailedException, RequestRejectedException)),
                 detail=repr(e))
        new = inv._consecutive_failures_count
        # what the transport reported is what the caller gets: a rejection stays a rejection (the inverter classes
        # test for it to detect unsupported blocks, C08 / C15), everything else becomes RequestFailedException
        if getattr(g, "execute_raised", None) is RequestRejectedException:
            ex.check("C08_C09_C15_rejection_surfaces_as_the_rejection_it_was", e is g.execute_rejection,
                     detail=repr(e))
        else:
            ex.check("C09_transport_failure_surfaces_as_RequestFailedException", isinstance(e, RequestFailedException),
                     detail=repr(e))
        if isinstance(e, RequestFailedException):
            ex.check("C09_failure_increments_counter", mk_bool(iterm(new) == count.t + 1))
            ex.check("C09_failure_reports_counter", mk_bool(iterm(e.consecutive_failures_count) == count.t + 1))
        else:
            ex.check("C09_rejection_leaves_counter", mk_bool(iterm(new) == count.t))
        return
    ex.check("C09_success_resets_counter", mk_bool(iterm(inv._consecutive_failures_count) == 0))


# ---- C18: the read-only API transmits only reads; invalid setter arguments transmit no write -------------------------------
READONLY = {
    "ET": ("read_device_info", "read_runtime_data", "read_sensor", "read_setting", "read_settings_data",
           "get_grid_export_limit", "get_operation_modes", "get_operation_mode", "get_ongrid_battery_dod"),
    "DT": ("read_device_info", "read_runtime_data", "read_sensor", "read_setting", "read_settings_data",
           "get_grid_export_limit", "get_operation_modes", "get_operation_mode", "get_ongrid_battery_dod"),
    "ES": ("read_device_info", "read_runtime_data", "read_sensor", "read_setting", "read_settings_data",
           "get_grid_export_limit", "get_operation_modes", "get_operation_mode", "get_ongrid_battery_dod"),
}


def settings_variants(ex, inv, family):
    """the settings dictionary an object can hold after read_device_info (firmware-dependent additions)"""
    k = 0
    if family == "ET":
        k = ex.choose(3, tag="settings.variant")
        if k >= 1:
            ex.call(inv._settings.update, [{s.id_: s for s in type(inv)._ET__settings_arm_fw_19}], {})
        if k >= 2:
            ex.call(inv._settings.update, [{s.id_: s for s in type(inv)._ET__settings_arm_fw_22}], {})
    elif family == "DT":
        k = ex.choose(3, tag="settings.variant")
        if k == 1:
            ex.call(inv._settings.update, [{s.id_: s for s in type(inv)._DT__settings_single_phase}], {})
        if k == 2:
            ex.call(inv._settings.update, [{s.id_: s for s in type(inv)._DT__settings_three_phase}], {})
    else:
        k = ex.choose(2, tag="settings.variant")
        if k == 1:
            ex.call(inv._settings.update, [{s.id_: s for s in type(inv)._ES__settings_arm_fw_14}], {})
    return k


def readonly_call(ex, family, method, history=False):
    from goodwe.exceptions import InverterError
    install_hooks()
    ex.contracts = {k: v for k, v in ex.contracts.items() if not k.endswith(".read")}
    inv = new_inverter(ex, family)          # fresh per path: the real constructor ran on this path
    g = ghost(ex)
    g.allow_failures = True
    g.allow_other_rejections = True
    g.consistent_refusal = False
    ex.setattr(inv, "serial_number", ex.fresh_str("serial"))
    ex.setattr(inv, "arm_version", ex.fresh_int("arm_version"))
    ex.setattr(inv, "dsp1_version", ex.fresh_int("dsp1_version"))
    variant = settings_variants(ex, inv, family)
    ex.inputs = {"family": family, "method": method, "script": g.script, "variant": variant}
    args = []
    if method in ("read_sensor", "read_setting"):
        pool = [s.id_ for s in (inv.sensors() if method == "read_sensor" else inv.settings())]
        pool = sorted(set(pool)) + ["modbus-47000", "no_such_id", "time"]
        args = [pool[ex.choose(len(pool), tag="id")]]
    ex.inputs["args"] = list(args)
    if method == "get_operation_modes":
        args = [bool(ex.choose(2, tag="include_emulated"))]
        ex.inputs["args"] = list(args)
    fn = getattr(inv, method)
    # history: the same object may have been used for a write before (whatever it remembers of it must not turn a
    # later read into a write).  The prior call and its requests are not judged, only what the read-only call sends.
    prior = None
    if history:
        v = ex.fresh_int("prior_value")
        ex.assume(mk_bool(z3.And(v.t >= 0, v.t <= 100)))
        if method == "read_setting":
            row = inv._settings.get(args[0])
            if row is None or setting_value_kind(row) != "int" or (
                    family == "ES" and type(row).__name__ in ("ByteH", "ByteL")):
                # the history variant writes integer-valued settings only (ES one-byte switches need the register
                # read back with a concrete length: covered by the C17 units over the register-file model)
                raise interp.PathEnd()
            prior = ("write_setting", [args[0], v])
        elif method == "get_grid_export_limit":
            prior = ("set_grid_export_limit", [v])
        elif method == "get_ongrid_battery_dod":
            prior = ("set_ongrid_battery_dod", [v])
        else:
            prior = ("write_setting", ["work_mode", v])
        ex.inputs["prior"] = {"method": prior[0], "args": list(prior[1])}
        try:
            run_coro(ex, getattr(inv, prior[0]), *prior[1])
        except PyRaise:
            pass
        g.requests.clear()
        ex.inputs["script_skip"] = len(g.script)
    ex.path_end_hooks.append(lambda: only_reads(ex))
    if family in ("ET", "DT") and method == "read_settings_data":
        ex.verify_key = f"goodwe.{family.lower()}.{family}.read_settings_data"   # its loop runs under the invariant rule
    try:
        res = run_coro(ex, fn, *args)
        if method == "read_settings_data" and family in ("ET", "ES"):
            want = []
            for s in ex.call(inv.settings, [], {}):
                if s.id_ not in want:
                    want.append(s.id_)
            ex.check("C11_every_setting_id_reported", list(res.keys()) == want)
    except PyRaise as pr:
        if method == "read_settings_data" and family in ("ET", "ES"):
            # the bulk read reports what it cannot read or decode as None; only a failure of the transport may end it
            ex.check("C11_every_setting_id_reported", isinstance(pr.exc, InverterError),
                     detail=f"read_settings_data raised {pr.exc!r}"[:200])
        listed = not args or args[0] not in ("no_such_id", "time", "modbus-47000") or method == "read_setting"
        if listed and not isinstance(pr.exc, NotImplementedError):     # NotImplementedError rows: finding of C16
            ex.check("C09_only_documented_exceptions", isinstance(pr.exc, (InverterError, ValueError)),
                     detail=repr(pr.exc)[:200])
    only_reads(ex)
    check_own_state_only(ex, inv)


def invalid_setter(ex, family, case):
    """setters with out-of-range / unknown arguments: no write reaches the transport; ValueError where documented"""
    from goodwe.exceptions import InverterError
    from goodwe.inverter import OperationMode
    install_hooks()
    inv = new_inverter(ex, family)
    g = ghost(ex)
    g.allow_failures = True
    g.allow_other_rejections = True
    g.consistent_refusal = False
    ex.setattr(inv, "serial_number", ex.fresh_str("serial"))
    ex.setattr(inv, "arm_version", ex.fresh_int("arm_version"))
    ex.setattr(inv, "dsp1_version", ex.fresh_int("dsp1_version"))
    settings_variants(ex, inv, family)
    x = ex.fresh_int("arg")
    y = ex.fresh_int("arg2")
    ex.inputs = {"family": family, "case": case, "arg": x, "arg2": y}
    must_raise_value_error = False
    if case == "export_limit_negative":
        ex.assume(mk_bool(x.t < 0))
        fn, args = inv.set_grid_export_limit, [x]
    elif case == "dod_out_of_range":
        ex.assume(mk_bool(z3.Or(x.t < 0, x.t > 100)))
        fn, args = inv.set_ongrid_battery_dod, [x]
    elif case == "eco_power_out_of_range":
        ex.assume(mk_bool(z3.Or(x.t < 0, x.t > 100)))
        mode = (OperationMode.ECO_CHARGE, OperationMode.ECO_DISCHARGE)[ex.choose(2, tag="mode")]
        fn, args = inv.set_operation_mode, [mode, x, y]
        must_raise_value_error = True
    elif case == "eco_soc_out_of_range":
        ex.assume(mk_bool(z3.Or(y.t < 0, y.t > 100)))
        mode = (OperationMode.ECO_CHARGE, OperationMode.ECO_DISCHARGE)[ex.choose(2, tag="mode")]
        fn, args = inv.set_operation_mode, [mode, x, y]
        must_raise_value_error = True
    elif case == "unknown_setting":
        # ids that are not settings of this object: a made-up one, and ids of runtime sensors (known to the object
        # under another role) whose class could encode a value
        known = set(inv._settings)
        pool = ["no_such_setting"]
        for srow in ex.call(inv.sensors, [], {}):
            if srow.id_ not in known and setting_value_kind(srow) == "int" and srow.id_ not in pool:
                pool.append(srow.id_)
            if len(pool) >= 4:
                break
        sid = pool[ex.choose(len(pool), tag="unknown.id")]
        ex.inputs["setting_id"] = sid
        fn, args = inv.write_setting, [sid, x]
        must_raise_value_error = True
    else:
        raise Unsupported(case)
    raised = None
    try:
        run_coro(ex, fn, *args)
    except PyRaise as pr:
        raised = pr.exc
    if family == "DT" and case in ("dod_out_of_range", "eco_power_out_of_range", "eco_soc_out_of_range"):
        ex.check("C18_unsupported_operation_raises_InverterError", isinstance(raised, InverterError))
    elif must_raise_value_error:
        ex.check("C18_invalid_argument_raises_ValueError", isinstance(raised, ValueError), detail=repr(raised))
    else:
        ex.check("C18_invalid_argument_raises_nothing_unexpected",
                 raised is None or isinstance(raised, (ValueError, InverterError)), detail=repr(raised))
    g2 = ghost(ex)
    writes = [k for k, c in g2.requests if k != "read"]
    ex.check("C18_no_write_for_invalid_argument", not writes, detail=f"{len(writes)} write(s) transmitted")


# ---- entry points: connect / discover / search_inverters (C05 binding, C09, C18) -----------------------------------------------
def entrypoint(ex, which):
    """goodwe.connect / discover / search_inverters with symbolic timeout and retries: every protocol object that
    sends a request carries exactly the configured values; only reads are sent; only InverterError escapes"""
    import goodwe
    from goodwe.exceptions import InverterError
    install_hooks()
    g = ghost(ex)
    g.allow_failures = True
    g.allow_other_rejections = True
    g.consistent_refusal = False
    g.protocols = []
    T = ex.fresh_int("timeout")
    R = ex.fresh_int("retries")
    ex.assume(mk_bool(z3.And(T.t >= 1, T.t <= 3600, R.t >= 0, R.t <= 100)))
    ex.inputs = {"which": which, "timeout": T, "retries": R, "script": g.script}
    want_T, want_R = T, R
    if which == "discover_udp":
        coro = ex.call(goodwe.discover, ["host", 8899, T, R], {})
    elif which == "discover_tcp":
        coro = ex.call(goodwe.discover, ["host", 502, T, R], {})
    elif which.startswith("connect_"):
        fam = which.split("_")[1]
        family = None if fam == "auto" else fam
        coro = ex.call(goodwe.connect, ["host", 8899, family, 0, T, R], {})
    elif which == "search_inverters":
        coro = ex.call(goodwe.search_inverters, [], {})
        want_T, want_R = 1, 0
    else:
        raise Unsupported(which)
    raised = None
    try:
        coro if not isinstance(coro, (aio.Coro, aio.ContractCoro)) else aio.await_value(ex, coro)
    except PyRaise as pr:
        raised = pr.exc
    ex.check("C09_only_InverterError", raised is None or isinstance(raised, InverterError),
             detail=None if raised is None else f"{type(raised).__name__}: {raised}"[:200])
    for p in g.protocols:
        ex.check("C05_configured_timeout_and_retries_reach_the_transport",
                 mk_bool(z3.And(iterm(p.timeout) == iterm(want_T), iterm(p.retries) == iterm(want_R))),
                 detail=f"{type(p).__name__}: timeout={p.timeout} retries={p.retries}")
    ex.check("C05_some_request_was_made", bool(g.protocols))
    only_reads(ex)


# ---- assumed inverter model for C17 / C19 (E1, E2): a register file behind the transport ---------------------------------------
class RegFile:
    """E1: a validated read answer carries the current contents; an accepted write stores exactly the bytes written;
    nothing else changes registers.  E2 (ES only): AA55 command 0359 01 mm sets the work-mode word of the settings
    block (offset 66), 0335 02 xxxx the export limit (offset 52), register 0x560 the word reported as dod (offset 32).
    The operation is decoded from the *request bytes*, i.e. by what actually goes on the wire."""

    def __init__(self, ex):
        self.mem = ex.fresh_arr("mem")          # modbus register -> 16 bit word
        self.aa = ex.fresh_arr("aa55mem")       # AA55 register space of the ES family
        self.blob = ex.fresh_arr("settings")    # ES settings block (AA55 0109), byte addressed
        self.mem0, self.aa0, self.blob0 = self.mem, self.aa, self.blob
        self.log = []                           # ('read'|'write', space, addr, nregs, data)
        self.refuse_nothing = True

    def may_refuse(self, ex, command, kind):
        return False

    def _word(self, ex, arr, addr):
        t = z3.simplify(z3.Select(arr, addr))
        ex.fact(z3.And(t >= 0, t <= 65535))
        return t

    def _payload_from(self, ex, arr, addr, count):
        els = []
        for i in range(count):
            w = self._word(ex, arr, zt(addr) + i)
            els.append(mk_int(w / 256))
            els.append(mk_int(w % 256))
        return SBytes([ESeg(els)])

    def _store_bytes(self, ex, arr, addr, data):
        n = data.length()
        if not isinstance(n, int) or n % 2:
            raise Unsupported("register write of odd or symbolic length")
        for i in range(n // 2):
            w = iterm(data.elem_at(ex, 2 * i)) * 256 + iterm(data.elem_at(ex, 2 * i + 1))
            arr = z3.Store(arr, zt(addr) + i, w)
        return arr

    def answer(self, ex, inv, command, kind):
        from goodwe.protocol import (Aa55ProtocolCommand, ModbusRtuProtocolCommand, ModbusTcpProtocolCommand)
        r = SBytes.of(command.request)
        g = ghost(ex)

        def b(i):
            v = r.elem_at(ex, i)
            return v if isinstance(v, int) else wrapc(ex, iterm(v))

        def be16(i):
            return wrapc(ex, iterm(b(i)) * 256 + iterm(b(i + 1)))

        if isinstance(command, (ModbusRtuProtocolCommand, ModbusTcpProtocolCommand)):
            o = 0 if isinstance(command, ModbusRtuProtocolCommand) else 6
            fn = b(o + 1)
            addr = be16(o + 2)
            if not isinstance(fn, int):
                raise Unsupported("symbolic function code")
            if fn == 3:
                count = be16(o + 4)
                if not isinstance(count, int):
                    raise Unsupported("symbolic register count")
                payload = self._payload_from(ex, self.mem, addr, count)
                if getattr(self, "padded_replies", False) and ex.choose(2, tag="reply.padded") == 1:
                    payload = payload.concat(SBytes.fresh(ex, "trailing", 2))
                self.log.append(("read", "modbus", addr, count, None))
            elif fn == 6:
                data = r.slice(ex, o + 4, o + 6)
                self.mem = self._store_bytes(ex, self.mem, addr, data)
                self.log.append(("write", "modbus", addr, 1, data))
                payload = SBytes.fresh(ex, "echo", 4)
            elif fn == 16:
                n = b(o + 6)
                if not isinstance(n, int):
                    raise Unsupported("symbolic byte count")
                data = r.slice(ex, o + 7, o + 7 + n)
                self.mem = self._store_bytes(ex, self.mem, addr, data)
                self.log.append(("write", "modbus", addr, n // 2, data))
                payload = SBytes.fresh(ex, "echo", 4)
            else:
                raise Unsupported(f"function code {fn}")
        elif isinstance(command, Aa55ProtocolCommand):
            ctrl, func = b(4), b(5)
            if (ctrl, func) == (1, 0x1A):
                addr, count = be16(7), b(9)
                payload = self._payload_from(ex, self.aa, addr, count)
                self.log.append(("read", "aa55", addr, count, None))
            elif (ctrl, func) == (2, 0x39):
                addr = be16(7)
                n = b(9)
                if b(6) == 5:
                    data = r.slice(ex, 10, 12)
                else:
                    data = r.slice(ex, 10, 10 + n)
                if isinstance(addr, int) and addr == 0x560:
                    self.blob = z3.Store(z3.Store(self.blob, 32, iterm(data.elem_at(ex, 0))), 33,
                                         iterm(data.elem_at(ex, 1)))
                else:
                    self.aa = self._store_bytes(ex, self.aa, addr, data)
                self.log.append(("write", "aa55", addr, data.length() // 2, data))
                payload = SBytes.fresh(ex, "echo", 1)
            elif (ctrl, func) == (1, 9):
                n = 100
                payload = SBytes([ASeg(self.blob, 0, n)])
                self.log.append(("read", "settings", 0, n, None))
            elif ctrl == 1:
                payload = SBytes.fresh(ex, "payload", payload_length(ex, command))
                self.log.append(("read", "other", 0, 0, None))
            elif (ctrl, func) == (3, 0x59):
                self.blob = z3.Store(z3.Store(self.blob, 66, z3.IntVal(0)), 67, iterm(b(7)))
                self.log.append(("write", "work_mode", 66, 1, r.slice(ex, 7, 8)))
                payload = SBytes.fresh(ex, "echo", 1)
            elif (ctrl, func) == (3, 0x35):
                self.blob = z3.Store(z3.Store(self.blob, 52, iterm(b(7))), 53, iterm(b(8)))
                self.log.append(("write", "export_limit", 52, 1, r.slice(ex, 7, 9)))
                payload = SBytes.fresh(ex, "echo", 1)
            else:
                self.log.append(("write", "other", (ctrl, func), 0, None))
                payload = SBytes.fresh(ex, "echo", 1)
        else:
            raise Unsupported("command type")
        g.script.append({"kind": "return", "payload": payload})
        return make_response(ex, command, payload)


def wrapc(ex, t):
    """value of a term: python int when the path condition fixes it (e.g. through a callee post-condition)"""
    c = ex.concretize(t)
    return c if isinstance(c, int) else mk_int(c)


def setting_value_kind(s):
    cls = type(s).__name__
    if cls in ("Integer", "IntegerS", "Long", "LongS", "ByteH", "ByteL"):
        return "int"
    if cls in ("Voltage", "Current", "CurrentS", "Decimal"):
        return "float"
    if cls in ("EcoModeV1", "EcoModeV2", "Schedule", "PeakShavingMode"):
        return "bytes"
    if cls == "Timestamp":
        return "datetime"
    return None


def setting_rows(family):
    import contracts.sensor as cs
    out = []
    for tn, rows in sorted(cs.sensor_tables().items()):
        if tn.startswith(family + ".") and "settings" in tn:
            for r in rows:
                out.append((tn, r))
    return out


def write_setting_row(ex, family, index, port=8899):
    """C17 for one settings row: write_setting(id, v) against the register-file model, for every prior content and
    every encodable v: exactly one write, addressed to the row's registers, carrying encode_value(v); every other
    register keeps its value; read_setting(id) then decodes exactly what was written"""
    install_hooks()
    ex.contracts = {k: v for k, v in ex.contracts.items() if not k.endswith(".read")}
    tn, s = setting_rows(family)[index]
    cls = type(s).__name__
    ex.unit = f"write:{tn}/{s.id_}[{cls}]@{port}"
    kind = setting_value_kind(s)
    if kind is None:
        return
    inv = new_inverter(ex, family, port)
    inv._settings[s.id_] = s
    ex.setattr(inv, "serial_number", ex.fresh_str("serial"))
    g = ghost(ex)
    g.consistent_refusal = False
    g.regs = RegFile(ex)
    regs = g.regs
    # one-byte settings are written read-modify-write: the validated read answer may be longer than announced (C01: "at
    # least as long as its header announces"), i.e. the decoded block may carry trailing bytes
    regs.padded_replies = (s.size_ == 1 and family != "ES")
    if kind == "int":
        v = ex.fresh_int("value")
    elif kind == "float":
        v = ex.fresh_float("value")
    elif kind == "bytes":
        v = SBytes.fresh(ex, "value", s.size_)
    else:
        y = [ex.fresh_int(n) for n in ("year", "month", "day", "hour", "minute", "second")]
        ex.assume(mk_bool(z3.And(y[0].t >= 2000, y[0].t <= 2255, y[1].t >= 1, y[1].t <= 12, y[2].t >= 1, y[2].t <= 31,
                                 y[3].t >= 0, y[3].t <= 23, y[4].t >= 0, y[4].t <= 59, y[5].t >= 0, y[5].t <= 59)))
        ex.assume(mk_bool(models.DT_VALID(*([t.t for t in y] + [z3.IntVal(0)]))))     # v is an existing datetime
        v = models.SDatetime(tuple(y) + (0,))
    ex.inputs = {"family": family, "id": s.id_, "value": v, "table": tn}
    raised = None
    try:
        run_coro(ex, inv.write_setting, s.id_, v)
    except PyRaise as pr:
        raised = pr.exc
    writes = [e for e in regs.log if e[0] == "write"]
    reads = [e for e in regs.log if e[0] == "read"]
    if raised is not None:
        # a value outside the encodable domain: nothing may have been written
        ex.check("C17_no_write_when_encoding_fails", not writes, detail=repr(raised)[:120])
        return
    ex.check("C17_exactly_one_write", len(writes) == 1, detail=f"{len(writes)} writes, {len(reads)} reads")
    if len(writes) != 1:
        return
    nregs = (s.size_ + 1) // 2
    op, space, addr, n, data = writes[0]
    ex.check("C17_write_addresses_exactly_own_registers",
             conj_eq(ex, addr, s.offset) if True else True, detail=f"write at {addr}, {n} register(s)")
    ex.check("C17_write_covers_exactly_own_registers", n == nregs, detail=f"{n} != {nregs}")
    # what was written is the encoding of v (for one-byte settings: merged with the other half of the register)
    if s.size_ == 1:
        ex.check("C17_prior_read_of_own_register_only", all(conj_is(e[2], s.offset) and e[3] == 1 for e in reads))
        arr0 = regs.mem0 if space == "modbus" else regs.aa0
        old = regs._word(ex, arr0, z3.IntVal(s.offset))
        other = 1 if cls == "ByteH" else 0
        keep = (old % 256) if other == 1 else (old / 256)
        ex.check("C17_other_half_of_shared_register_kept", mk_bool(iterm(data.elem_at(ex, other)) == keep))
        ex.check("C17_written_byte_is_value",
                 mk_bool(iterm(data.elem_at(ex, 1 - other)) == z3.If(iterm(v) < 0, iterm(v) + 256, iterm(v))))
    else:
        ex.check("C17_no_read_needed", not reads)
        enc = ex.call(s.encode_value, [v], {})
        from .models import bytes_eq
        eq = bytes_eq(ex, SBytes.of(enc), data)
        ex.check("C17_written_bytes_are_encode_value", eq if isinstance(eq, bool) else mk_bool(eq))
    # read back through the same model (ES: only the eco-mode groups are read from registers, C17 "can read back")
    if family == "ES" and s.id_ not in ("eco_mode_1", "eco_mode_2", "eco_mode_3", "eco_mode_4"):
        return
    if kind == "bytes":
        return      # encode_value(bytes) is the identity on valid groups; covered by written_bytes_are_encode_value
    try:
        back = run_coro(ex, inv.read_setting, s.id_)
    except PyRaise as pr:
        ex.check("C17_written_value_reads_back", False, detail=f"read_setting raised {pr.exc!r}"[:150])
        return
    if kind == "int":
        # 0xFFFF / 0xFFFFFFFF is the 'no value' sentinel of the unsigned decoders: separate obligation
        sentinel = {"Integer": 0xFFFF, "Long": 0xFFFFFFFF}.get(cls)
        if sentinel is not None and ex.branch(iterm(v) == sentinel, tag="sentinel"):
            ex.check("C17_sentinel_value_reads_back", ex.compare(ast.Eq(), back, v))
        else:
            ex.check("C17_written_value_reads_back", ex.compare(ast.Eq(), back, v))
    elif kind == "datetime":
        ex.check("C17_written_value_reads_back", ex.compare(ast.Eq(), back, v))
    # floats: the class round trip is an exhaustive native obligation (encode(decode(w)) == w for all 65536 words)


def conj_eq(ex, a, b):
    r = ex.compare(ast.Eq(), a, b)
    return r


def conj_is(a, b):
    return isinstance(a, int) and a == b


# ---- C19: setters round-trip with their getters against the register-file model ----------------------------------------------
def _c19_inverter(ex, family, fw2, p745):
    inv = new_inverter(ex, family)
    serial = ex.fresh_str("serial")
    ex.setattr(inv, "serial_number", serial)
    # platform predicate: decided by the serial number; fixed here through the tag facts the model predicates consult
    from goodwe import model
    for tag in model.PLATFORM_745_LV_MODELS + model.PLATFORM_745_HV_MODELS:
        ex.str_facts[('substr', tag, serial.key)] = ex.fresh_bool("tag")
        ex.assume(mk_bool(ex.str_facts[('substr', tag, serial.key)].t == z3.BoolVal(bool(p745) and tag == "ETT")))
    if family == "ET":
        if fw2:
            ex.call(inv._settings.update, [{s.id_: s for s in type(inv)._ET__settings_arm_fw_19}], {})
        else:
            ex.setattr(inv, "_has_eco_mode_v2", False)
    else:
        if fw2:
            ex.call(inv._settings.update, [{s.id_: s for s in type(inv)._ES__settings_arm_fw_14}], {})
        ex.setattr(inv, "arm_version", 14 if fw2 else ex.fresh_int("arm_version"))
        ex.setattr(inv, "dsp1_version", ex.fresh_int("dsp1_version"))
    return inv


def _eco_onoff_reg(regs, family, fw2, k, initial=False):
    """E3: register space and register whose high byte is the on/off byte of eco-mode group k"""
    if fw2:
        return (regs.mem0 if initial else regs.mem), 47547 + 6 * (k - 1) + 2
    if family == "ET":
        return (regs.mem0 if initial else regs.mem), 47515 + 4 * (k - 1) + 3
    return (regs.aa0 if initial else regs.aa), 0x701 + 4 * (k - 1) + 3


def operation_mode_roundtrip(ex, family, fw2, p745, mode_index):
    """set_operation_mode(m, power, soc) then get_operation_mode() == m, for any prior register contents"""
    from goodwe.inverter import OperationMode
    install_hooks()
    ex.contracts = {k: v for k, v in ex.contracts.items() if not k.endswith(".read")}
    inv = _c19_inverter(ex, family, fw2, p745)
    g = ghost(ex)
    g.consistent_refusal = False
    g.regs = RegFile(ex)
    g.focus_ids = ("work_mode",)
    modes = run_coro(ex, inv.get_operation_modes, True)
    if mode_index >= len(modes):
        return
    m = modes[mode_index]
    ex.unit = f"opmode:{family}{'.v2' if fw2 else '.v1'}{'.745' if p745 else ''}/{m.name}"
    p = ex.fresh_int("power")
    s = ex.fresh_int("soc")
    ex.assume(mk_bool(z3.And(p.t >= 1, p.t <= 100, s.t >= 0, s.t <= 100)))
    ex.inputs = {"family": family, "fw2": fw2, "p745": p745, "mode": int(m), "power": p, "soc": s,
                 "prior": SBytes([ASeg(g.regs.mem0, 47515 if not fw2 else 47547, 16)])}
    # quantifier of C19: prior contents of the eco-mode registers of *all schedule types*, i.e. any decodable group
    eco0 = inv._settings.get("eco_mode_1")
    if eco0 is not None:
        n0 = eco0.size_
        space = g.regs.mem0 if (family == "ET" or eco0.offset > 30000) else g.regs.aa0
        prior_bytes = g.regs._payload_from(ex, space, eco0.offset, n0 // 2)
        from .sensor_harness import make_response as mkresp
        try:
            ex.call(eco0.read_value, [mkresp(ex, prior_bytes, "plain", 0)], {})
        except PyRaise as pr:
            if isinstance(pr.exc, ValueError):
                raise interp.Infeasible()
            raise
        ex.inputs["prior"] = prior_bytes
    # ... and groups 2..4 hold decodable on/off bytes beforehand (v1: off 0 / on 0xFF; v2: 0..6 off, -1..-7 on, 85
    # unset -- the values ScheduleType.detect_schedule_type accepts)
    for k in (2, 3, 4):
        space0, reg = _eco_onoff_reg(g.regs, family, fw2, k, initial=True)
        hb0 = g.regs._word(ex, space0, zt(reg)) / 256
        ex.assume(mk_bool(z3.Or(hb0 <= 6, hb0 >= 249, hb0 == 85)) if fw2 else mk_bool(z3.Or(hb0 == 0, hb0 == 255)))
    try:
        run_coro(ex, inv.set_operation_mode, m, p, s)
    except PyRaise as pr:
        ex.check("C19_setter_succeeds_on_valid_arguments", False, detail=repr(pr.exc)[:200])
        return
    try:
        got = run_coro(ex, inv.get_operation_mode)
    except PyRaise as pr:
        ex.check("C19_getter_returns_mode_that_was_set", False, detail=f"getter raised {pr.exc!r}"[:200])
        return
    if m == OperationMode.ECO:
        # with group 1 already holding a 24/7 charge/discharge pattern the getter answers the emulated mode (finding)
        ex.check("C19_getter_returns_mode_that_was_set__ECO",
                 got is m or got in (OperationMode.ECO_CHARGE, OperationMode.ECO_DISCHARGE) and False,
                 detail=f"set {m.name}, got {got}")
    else:
        ex.check("C19_getter_returns_mode_that_was_set", got is m, detail=f"set {m.name}, got {got}")
    if m in (OperationMode.ECO_CHARGE, OperationMode.ECO_DISCHARGE):
        eco = run_coro(ex, inv.read_setting, "eco_mode_1")
        # raw power field == +-encode_power(p) of the group's schedule type (integers); that decode_power inverts
        # encode_power on 1..100 is part of the exhaustive native grid (floats in the 745 scaling)
        st = ex.call(eco.get_schedule_type, [], {})
        enc = ex.call(st.encode_power, [p], {})
        want = mk_int(-iterm(enc)) if m == OperationMode.ECO_CHARGE else enc
        ex.check("C19_first_group_decodes_to_requested_power", ex.compare(ast.Eq(), eco.power, want),
                 detail=f"{eco.power} vs {want}")
        if m == OperationMode.ECO_CHARGE and fw2:
            ex.check("C19_first_group_decodes_to_requested_soc", ex.compare(ast.Eq(), eco.soc, s))
        for k in (2, 3, 4):
            sw = run_coro(ex, inv.read_setting, f"eco_mode_{k}_switch") if family == "ET" else None
            if sw is not None:
                ex.check("C19_other_groups_switched_off", ex.compare(ast.Eq(), sw, 0), detail=f"group {k}")
            # the same, stated on the register file and independent of the settings table (E3: group k of eco-mode v1
            # occupies 4 registers from 47515 / AA55 0x701, of v2 6 registers from 47547; the on/off byte is the high
            # byte of the 4th resp. 3rd register; on = 0xFF for v1, -7..-1 for v2)
            space, reg = _eco_onoff_reg(g.regs, family, fw2, k)
            hb = g.regs._word(ex, space, zt(reg)) / 256
            off = (hb < 249) if fw2 else (hb == 0)
            ex.check("C19_other_groups_switched_off_in_the_register_file", mk_bool(off), detail=f"group {k}")


def limit_roundtrip(ex, family, which):
    """set_grid_export_limit(x)/get..., set_ongrid_battery_dod(d)/get... return the value that was set"""
    install_hooks()
    ex.contracts = {k: v for k, v in ex.contracts.items() if not k.endswith(".read")}
    inv = _c19_inverter(ex, family, False, False)
    variant = settings_variants(ex, inv, family) if family == "DT" else 0
    g = ghost(ex)
    g.consistent_refusal = False
    g.regs = RegFile(ex)
    g.focus_ids = ("grid_export_limit", "dod")
    x = ex.fresh_int("x")
    ex.inputs = {"family": family, "which": which, "x": x, "variant": variant}
    if which == "export_limit":
        ex.assume(mk_bool(z3.And(x.t >= 0, x.t <= 65534)))
        setter, getter = inv.set_grid_export_limit, inv.get_grid_export_limit
    else:
        ex.assume(mk_bool(z3.And(x.t >= 0, x.t <= 100)))
        setter, getter = inv.set_ongrid_battery_dod, inv.get_ongrid_battery_dod
    try:
        run_coro(ex, setter, x)
        got = run_coro(ex, getter)
    except PyRaise as pr:
        from goodwe.exceptions import InverterError
        unsupported = family == "DT" and which == "dod" and isinstance(pr.exc, InverterError)
        ex.check("C19_limit_setter_getter_succeed", unsupported, detail=repr(pr.exc)[:200])
        return
    ex.check("C19_getter_returns_value_that_was_set", ex.compare(ast.Eq(), got, x), detail=f"{got}")


# ---- C16 at the API level: read_sensor(id) == read_runtime_data()[id] against the same register file -----------------------
def c16_ids(family):
    inv = {"ET": None, "DT": None}
    from goodwe.et import ET
    from goodwe.dt import DT
    if family == "ET":
        rows = (ET._ET__all_sensors + ET._ET__all_sensors_meter + ET._ET__all_sensors_battery
                + ET._ET__all_sensors_battery2 + ET._ET__all_sensors_mppt)
    else:
        rows = DT._DT__all_sensors + DT._DT__all_sensors_meter
    out = []
    for r in rows:
        if r.id_ not in out:
            out.append(r.id_)
    return out


def single_vs_bulk(ex, family, chunk, nchunks):
    """with every capability present: for each listed id, read_sensor(id) returns what read_runtime_data() reports for
    it on unchanged registers (or raises ValueError where the bulk read reports None)"""
    install_hooks()
    ex.contracts = {k: v for k, v in ex.contracts.items() if not k.endswith(".read")}
    ids_all = c16_ids(family)
    mine = ids_all[chunk::nchunks]
    sid = mine[ex.choose(len(mine), tag="id")]
    inv = new_inverter(ex, family)
    ex.setattr(inv, "serial_number", ex.fresh_str("serial"))
    if family == "ET":
        ex.setattr(inv, "_has_battery2", True)
        ex.setattr(inv, "_has_mppt", True)
        ex.setattr(inv, "_has_meter_extended", True)
        ex.setattr(inv, "_has_meter_extended2", True)
    g = ghost(ex)
    g.consistent_refusal = False
    g.regs = RegFile(ex)
    g.focus_ids = (sid,)
    cls = [type(r).__name__ for r in (ex.call(inv.sensors, [], {})) if r.id_ == sid][-1]
    ex.unit = f"api:{family}/{sid}[{cls}]"
    ex.inputs = {"family": family, "id": sid}
    try:
        data = run_coro(ex, inv.read_runtime_data)
    except PyRaise as pr:
        ex.check("C16_bulk_read_succeeds_on_a_cooperative_inverter", False, detail=repr(pr.exc)[:150])
        return
    listed = [s.id_ for s in ex.call(inv.sensors, [], {})]
    if sid not in listed:
        return          # e.g. battery ids when the battery mode word reads 0: not offered, nothing to compare
    bulk = data.get(sid)
    try:
        single = run_coro(ex, inv.read_sensor, sid)
    except PyRaise as pr:
        e = pr.exc
        if isinstance(e, NotImplementedError):
            ex.check("C16_read_value_is_implemented", False, detail=f"{cls}.read_value raises NotImplementedError")
            return
        ex.check("C16_single_read_of_a_listed_id_fails_only_where_bulk_reports_None",
                 isinstance(e, ValueError) and bulk is None and "nknown" not in str(getattr(e, "args", [""])[0]),
                 detail=f"{type(e).__name__}: {e}"[:160])
        return
    from .sensor_harness import values_equal
    ex.check("C16_single_read_equals_bulk_read", values_equal(ex, single, bulk), detail=f"{single} vs {bulk}"[:200])


def sensor_cache_history(ex, family):
    """C16 'also after the set of available sensors has changed between calls': a single read, then a bulk read that
    changes the capabilities, then every listed id must still be known to read_sensor"""
    install_hooks()
    inv = new_inverter(ex, family)
    ex.setattr(inv, "serial_number", ex.fresh_str("serial"))
    g = ghost(ex)
    g.consistent_refusal = True
    ex.unit = f"cache:{family}"
    ex.inputs = {"family": family}
    if family == "ET":
        ex.setattr(inv, "_has_battery", bool(ex.choose(2, tag="battery.before")))
        ex.setattr(inv, "_has_mppt", bool(ex.choose(2, tag="mppt.before")))
        lvl, e2, e1 = (("full", True, True), ("lt58", False, True), ("lt45", False, False))[ex.choose(3, tag="meter.level")]
        ex.setattr(inv, "_sensors_meter", et_filters()[("meter", 0, lvl)])
        ex.setattr(inv, "_has_meter_extended2", e2)
        ex.setattr(inv, "_has_meter_extended", e1)
    else:
        ex.setattr(inv, "_has_meter", bool(ex.choose(2, tag="meter.before")))
    g.never_refused = {command_key(inv._READ_RUNNING_DATA)} | ({command_key(inv._READ_METER_DATA)} if family == "ET" else set())
    first = ex.call(inv.sensors, [], {})[1].id_
    try:
        run_coro(ex, inv.read_sensor, first)       # builds whatever lookup structure the class keeps
    except PyRaise:
        return
    try:
        run_coro(ex, inv.read_runtime_data)
    except PyRaise:
        return
    listed = ex.call(inv.sensors, [], {})
    missing = [s.id_ for s in listed if ex.call(inv._get_sensor, [s.id_], {}) is None]
    ex.check("C16_every_listed_id_is_known_to_read_sensor_after_capability_change", not missing,
             detail=f"unknown to read_sensor: {missing[:6]}")
    # ... and is looked up with the definition the bulk read reports (for an id listed twice the later row wins there)
    last = {}
    for srow in listed:
        last[srow.id_] = srow
    stale = [i for i, srow in last.items() if ex.call(inv._get_sensor, [i], {}) is not srow]
    ex.check("C16_read_sensor_uses_the_definition_of_the_bulk_read_after_capability_change", not stale,
             detail=f"read_sensor would decode another definition of: {stale[:6]}")


# ---- C20 F3/F4: inverter methods modify only state owned by the object ------------------------------------------------------
_SHARED = None


def shared_ids(ex):
    """ids of mutable objects reachable from module globals and class attributes of the package (shared by every
    inverter object in the process)"""
    global _SHARED
    if _SHARED is not None:
        return _SHARED
    seen = {}

    def walk(o, depth):
        if depth > 3 or id(o) in seen:
            return
        if isinstance(o, (dict, list, set)):
            seen[id(o)] = o
            for x in (o.values() if isinstance(o, dict) else o):
                walk(x, depth + 1)
        elif isinstance(o, tuple):
            for x in o:
                walk(x, depth + 1)
        elif type(o).__module__.startswith("goodwe") and hasattr(o, "__dict__") and not isinstance(o, type):
            seen[id(o)] = o
            for x in vars(o).values():
                walk(x, depth + 1)
    for modname, mod in ex.world.modules.items():
        if not modname.startswith("goodwe"):
            continue
        for k, v in vars(mod).items():
            if isinstance(v, type) and v.__module__.startswith("goodwe"):
                for kk, vv in vars(v).items():
                    walk(vv, 0)
            elif not k.startswith("__") and not isinstance(v, type) and not callable(v):
                walk(v, 0)
    _SHARED = seen
    return seen


def check_own_state_only(ex, inv, name="C20_F3_F4_only_state_owned_by_the_object_is_modified"):
    sh = shared_ids(ex)
    bad = []
    for obj, what in ex.writes:
        if isinstance(obj, str):
            if not (obj == "goodwe.protocol" and what == "_modbus_tcp_tx"):     # exempted by the property
                bad.append(f"module global {obj}.{what}")
        elif isinstance(obj, type):
            bad.append(f"class attribute {obj.__name__}.{what}")
        elif id(obj) in sh:
            if type(obj).__name__ in ("EcoModeV1", "EcoModeV2", "Schedule", "PeakShavingMode"):
                continue        # the known finding of C20 (rows units) - not reported twice
            bad.append(f"{type(obj).__name__} shared through a class/module: {what}")
    ex.check(name, not bad, detail="; ".join(bad[:4]))
