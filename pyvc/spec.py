"""Specification vocabulary shared by the sidecar contracts.

Every function here has two implementations: the plain python one below (used when contracts are evaluated
natively — replay, differential run, run-time wrapping) and a symbolic one registered in pyvc.models (used
when the executor evaluates the *same contract text* to generate verification conditions).
"""
from __future__ import annotations


def is_bytes(x):
    return isinstance(x, (bytes, bytearray))


def is_int(x):
    return isinstance(x, int) and not isinstance(x, bool)


def be16(b):
    """unsigned big-endian value of a 2-byte string"""
    return b[0] * 256 + b[1]


def sbe16(b):
    """signed (two's complement) big-endian value of a 2-byte string"""
    v = b[0] * 256 + b[1]
    return v - 65536 if v >= 32768 else v


def be(b, n):
    """unsigned big-endian value of the first n bytes"""
    v = 0
    for i in range(n):
        v = v * 256 + b[i]
    return v


def sbe(b, n):
    v = be(b, n)
    return v - 256 ** n if v >= 256 ** n // 2 else v


def crc16_step(c, b):
    """CRC-16/MODBUS, one input byte, bit by bit (reflected polynomial 0xA001) — the definition the table
    driven implementation is verified against"""
    c = c ^ b
    for _ in range(8):
        c = (c >> 1) ^ (0xA001 if c & 1 else 0)
    return c


def CRC16(data):
    """CRC-16/MODBUS of a byte string (init 0xFFFF)"""
    c = 0xFFFF
    for b in data:
        c = crc16_step(c, b)
    return c


def SUM(data):
    """plain sum of the bytes"""
    s = 0
    for b in data:
        s += b
    return s


def same_bytes(a, b):
    """a and b are equal as byte strings"""
    return bytes(a) == bytes(b)


def fdiv(a, b):
    return float(a) / b


def fmul(a, b):
    return a * b


def exc_is(raised, cls):
    return isinstance(raised, cls)


def old(x):
    return x


def unpack_f32(b):
    """IEEE-754 single precision value of 4 big-endian bytes"""
    import struct
    return struct.unpack('>f', bytes(b[0:4]))[0]


def round_n(x, n):
    return round(x, n)


def s8(x):
    """signed value of one byte"""
    return x - 256 if x >= 128 else x


def bits_label(v, table):
    """labels of the set bits 0..31 of v in ascending order (empty labels skipped), joined by ', '"""
    out = []
    for i in range(32):
        if (v >> i) & 1 == 1:
            if table.get(i, "err%d" % i):
                out.append(table.get(i, "err%d" % i))
    return ", ".join(out)
