"""Verification of the transport state machine of goodwe/protocol.py as a monitor (DESIGN 2.6): every callback and
every await-free stretch of send_request / execute is an atomic segment; the protocol object carries an object
invariant; at an await everything another segment may change is havocked and the invariant re-assumed."""
from __future__ import annotations

import ast
import asyncio

import z3

from . import interp, aio, aio_env, models
from .aio_env import (pg, ProtoGhost, GFuture, GTimer, GTransport, GLock, GLoop, MaybeBytes, PENDING, RESULT, EXCEPTION,
                      CANCELLED)
from .interp import PyRaise
from .sbytes import SBytes
from .sym import SInt, SBool, Unsupported, mk_bool, mk_int, iterm, bterm

_EQ = ast.Eq()


# ---- the command stub: a ProtocolCommand whose validator behaves as the validators' contract says (C01) ----------------
class ValidatorModel:
    """validator of the command in flight: returns True / False or raises PartialResponseException(len, expected) with
    expected > len, or RequestRejectedException — exactly the outcomes proved for the three real validators (C01
    raises_only).  Every call is logged."""
    _pyvc_model = True

    def __init__(self):
        pass

    def __call__(self, data):
        from goodwe.exceptions import PartialResponseException, RequestRejectedException
        ex = interp.current()
        g = pg(ex)
        k = ex.choose(4, tag="validator")
        ex.inputs["validator"] = ("True", "False", "Partial", "Rejected")[k]
        if k == 0:
            g.validated.append((data, True))
            return True
        if k == 1:
            g.validated.append((data, False))
            return False
        if k == 2:
            n = data.blen() if isinstance(data, SBytes) else len(data)
            e = ex.fresh_int("expected")
            ex.assume(mk_bool(e.t > iterm(n)))
            exc = ex.new_object(PartialResponseException(n, e))
            g.validated.append((data, exc))
            raise PyRaise(exc)
        exc = ex.new_object(RequestRejectedException(models.fresh_strid(ex, "reason")))
        g.validated.append((data, exc))
        raise PyRaise(exc)


class StampModel:
    """`command.request_bytes()` of the command in flight: every call returns the frame as it has to go on the wire
    *now* (for Modbus/TCP: stamped with the next transaction id, proved for the real method in the C03 contract units).
    Each call yields a new byte string and is logged, so that a transmission can be tied to the call that produced it."""
    _pyvc_model = True

    def __init__(self, cmd, name):
        self.cmd, self.name = cmd, name

    def __call__(self):
        ex = interp.current()
        g = pg(ex)
        stamps = g.__dict__.setdefault("stamps", [])
        b = SBytes.fresh(ex, f"{self.name}_wire{len(stamps)}")
        stamps.append((self.cmd, b))
        return b


def make_command(ex, name="cmd"):
    from goodwe.protocol import ProtocolCommand
    classes = getattr(pg(ex), "command_classes", None) or (ProtocolCommand,)
    cls = classes[ex.choose(len(classes), tag="command.class")] if len(classes) > 1 else classes[0]
    c = ex.new_object(cls.__new__(cls))
    c.request = SBytes.fresh(ex, name + "_request")
    c.validator = ValidatorModel()
    c.request_bytes = StampModel(c, name)
    return c


def make_proto(ex, kind):
    from goodwe.protocol import UdpInverterProtocol, TcpInverterProtocol
    cls = UdpInverterProtocol if kind == "udp" else TcpInverterProtocol
    P = ex.new_object(cls("host", 8899 if kind == "udp" else 502, 0xf7, 1, 3))
    T, R = ex.fresh_int("timeout"), ex.fresh_int("retries")
    ex.assume(mk_bool(z3.And(T.t >= 1, R.t >= 0)))
    P.timeout, P.retries = T, R
    P.keep_alive = ex.fresh_bool("keep_alive")
    g = pg(ex)
    g.proto = P
    return P, g


def opt(ex, tag, maker):
    """None or a fresh object"""
    return None if ex.choose(2, tag=tag) == 0 else maker()


def lazy_timer(ex, P):
    """'None or a handle' for the segments of the requesting task: represented as a handle that may be dead.  The code
    under verification uses the truth value of _timer only to guard cancel() / logging, for which a dead handle and None
    behave alike; the callback segments, where the distinction could matter, enumerate None and handle explicitly."""
    return ex.new_object(GTimer(ex.fresh_bool("armed"), P.timeout, None, present=True))


def lazy_exc(ex):
    """exception stored on a future by a callback: the validator's rejection or what error_received was handed"""
    from goodwe.exceptions import RequestRejectedException
    if ex.choose(2, tag="stored.exception") == 0:
        return ex.new_object(RequestRejectedException(models.fresh_strid(ex, "reason")))
    return ex.new_object(OSError("reported by the transport"))


def arbitrary_state(ex, P, g, kind, lock="free", lazy=False):
    """any state of the protocol object and its ghost that satisfies the object invariant.  lazy: attributes the
    segment under verification only tests for presence are represented without forking"""
    if lazy:
        return arbitrary_state_lazy(ex, P, g, kind, lock)
    P._retry = ex.fresh_int("_retry")
    P._transport = opt(ex, "transport?", lambda: ex.new_object(GTransport(kind, ex.fresh_bool("closing"), g.loop)))
    st = ex.fresh_int("fstate")
    ex.assume(mk_bool(z3.And(st.t >= 0, st.t <= 3)))
    P.response_future = opt(ex, "future?", lambda: ex.new_object(GFuture(st)))
    if P.response_future is not None:
        P.response_future.exc = ex.new_object(OSError("stored"))
    P._timer = opt(ex, "timer?", lambda: ex.new_object(GTimer(ex.fresh_bool("armed"), P.timeout, None)))
    P.command = opt(ex, "command?", lambda: make_command(ex))
    if ex.choose(2, tag="partial?") == 0:
        P._partial_data, P._partial_missing = None, 0
    else:
        P._partial_data = SBytes.fresh(ex, "partial")
        P._partial_missing = ex.fresh_int("missing")
    P._running_loop = g.loop
    if lock == "none":
        P._lock = None
        P._running_loop = None
    else:
        P._lock = ex.new_object(GLock(lock == "mine", g.me if lock == "mine" else 0))
    g.tx = ex.fresh_int("tx")
    g.armed = ex.fresh_int("armed_count")
    g.open = [P._transport] if (P._transport is not None and ex.branch(z3.Not(bterm(P._transport.closing)),
                                                                       tag="open?")) else []
    for name, c in invariant(ex, P, g):
        ex.assume(c)


def arbitrary_state_lazy(ex, P, g, kind, lock):
    P._retry = ex.fresh_int("_retry")
    k = ex.choose(3, tag="transport")
    old_loop = aio_env.GLoop("previous") if lock == "stale_loop" else g.loop
    P._transport = None if k == 0 else ex.new_object(GTransport(kind, k == 2, old_loop))
    g.open = [P._transport] if k == 1 else []
    st = ex.fresh_int("fstate")
    ex.assume(mk_bool(z3.And(st.t >= 0, st.t <= 3)))
    P.response_future = opt(ex, "future?", lambda: ex.new_object(GFuture(st)))
    if P.response_future is not None:
        P.response_future.exc = lazy_exc
    P._timer = lazy_timer(ex, P)
    P.command = make_command(ex) if P.response_future is not None else None
    P._partial_data = MaybeBytes(ex.fresh_bool("partial_present"))
    P._partial_missing = ex.fresh_int("missing")
    P._running_loop = g.loop
    if lock == "none":
        P._lock = None
        P._running_loop = None
    elif lock == "stale_loop":
        # the object was last used from another event loop (successive asyncio.run calls)
        P._lock = ex.new_object(GLock(False, 0))
        P._running_loop = old_loop
    elif lock == "other":
        P._lock = ex.new_object(GLock(True, 2))          # a request of another task is in flight
    else:
        P._lock = ex.new_object(GLock(lock == "mine", g.me if lock == "mine" else 0))
    g.tx = ex.fresh_int("tx")
    g.armed = ex.fresh_int("armed_count")
    for name, c in invariant(ex, P, g):
        ex.assume(c)


def tx_obligations(ex, transport, payload):
    """checked at every transmission"""
    g = pg(ex)
    P = g.proto
    cleared = P._partial_data is None and (P._partial_missing == 0 if isinstance(P._partial_missing, int)
                                           else ex.known(iterm(P._partial_missing) == 0))
    ex.check("C07_C08_fragment_state_cleared_for_every_transmission", bool(cleared))
    # C03 "a transaction id that changes with every transmission": what goes out is the result of a request_bytes() call
    # made for this transmission (not the prepared template, not what an earlier attempt sent)
    stamps = getattr(g, "stamps", [])
    fresh = bool(stamps) and stamps[-1][1] is payload and not any(p is payload for p in g.tx_log[:-1])
    ex.check("C03_every_transmission_sends_a_freshly_stamped_request", fresh)
    cur = getattr(g, "current_command", None)
    if cur is not None and stamps:
        ex.check("C06_C18_transmission_carries_the_command_of_this_request", stamps[-1][0] is cur)
    ex.check("C10_transmission_uses_a_transport_of_the_running_loop", transport.loop is g.loop)
    lk = P._lock
    mine = lk is not None and lk.owner == g.me and (lk.is_locked is True or (
        not isinstance(lk.is_locked, bool) and ex.known(bterm(lk.is_locked))))
    ex.check("C06_transmission_only_while_holding_the_lock", bool(mine))


def timer_obligations(ex, P, g, evs, old_timer):
    """every timeout armed in this segment is the one the object remembers (or was cancelled again): otherwise nobody
    can cancel it and it ends a later attempt early"""
    for e in evs:
        if e[0] == "call_later":
            h = e[3]
            ok = h is P._timer or h.armed is False
            ex.check("C04_C05_C06_armed_timer_is_remembered", bool(ok))
            # an attempt is given up exactly one configured timeout after it was (re)armed, neither earlier nor later
            ex.check("C04_C05_C06_timeout_delay_is_the_configured_timeout", ex.compare(_EQ, e[1], P.timeout))
    if old_timer is not None and old_timer is not P._timer:
        # the handle the object remembered at the start of the segment was replaced or dropped: it must not be armed
        a, pr = old_timer.armed, old_timer.present
        at = bterm(a) if not isinstance(a, bool) else z3.BoolVal(a)
        pt = bterm(pr) if not isinstance(pr, bool) else z3.BoolVal(pr)
        ex.check("C04_C05_C07_no_armed_timeout_is_forgotten", mk_bool(z3.Not(z3.And(at, pt))))


def lock_obligations(ex, g):
    for e in g.lock_events:
        if e[0] == "release":
            ex.check("C06_lock_released_only_by_its_holder", e[2] == e[3] or e[2] == 0 and False,
                     detail=f"lock held by task {e[2]} released by task {e[3]}")


def invariant(ex, P, g):
    """the object invariant, as named conjuncts (bool / SBool)"""
    out = []
    r, R = iterm(P._retry), iterm(P.retries)
    out.append(("I4_retry_within_budget", mk_bool(z3.And(r >= 0, r <= R))))
    if P._partial_data is None:
        out.append(("I5_partial_state_consistent", mk_bool(iterm(P._partial_missing) == 0)
                    if not isinstance(P._partial_missing, int) else P._partial_missing == 0))
    elif isinstance(P._partial_data, MaybeBytes):
        pr = P._partial_data.present
        prt = bterm(pr) if not isinstance(pr, bool) else z3.BoolVal(pr)
        out.append(("I5_partial_state_consistent", mk_bool(z3.If(prt, iterm(P._partial_missing) > 0,
                                                                 iterm(P._partial_missing) == 0))))
    else:
        pm = iterm(P._partial_missing)
        pl = iterm(P._partial_data.blen()) if isinstance(P._partial_data, SBytes) else z3.IntVal(len(P._partial_data))
        out.append(("I5_partial_state_consistent", mk_bool(z3.And(pm > 0, pl >= 0))))
    tx = iterm(g.tx)
    out.append(("I1_request_in_flight_is_bound",
                mk_bool(z3.Implies(tx >= 1, z3.BoolVal(P.command is not None and P.response_future is not None)))))
    out.append(("ghost_counters_nonnegative", mk_bool(z3.And(tx >= 0, iterm(g.armed) >= 0))))
    if P.response_future is not None:
        s = P.response_future.state
        pend = (z3.BoolVal(s == PENDING) if isinstance(s, int) else iterm(s) == PENDING)
        out.append(("I2_pending_future_has_a_timeout_armed", mk_bool(z3.Implies(pend, iterm(g.armed) >= 1))))
    else:
        # timeouts are armed by _send_request only, which binds the future first
        out.append(("I2_timeouts_exist_only_for_a_bound_future", mk_bool(iterm(g.armed) == 0)))
    if P._timer is not None:
        a = P._timer.armed
        pr = P._timer.present
        at = bterm(a) if not isinstance(a, bool) else z3.BoolVal(a)
        pt = bterm(pr) if not isinstance(pr, bool) else z3.BoolVal(pr)
        out.append(("armed_timer_is_counted", mk_bool(z3.Implies(z3.And(at, pt), iterm(g.armed) >= 1))))
    ok_open = len(g.open) <= 1 and all(t is P._transport for t in g.open)
    out.append(("I6_open_transports_are_the_current_one", ok_open))
    return out


def check_invariant(ex, P, g, prefix=""):
    for name, c in invariant(ex, P, g):
        ex.check(prefix + name, c)


def tag_of(name):
    return {"I1": "C06", "I2": "C04", "I4": "C04", "I5": "C07", "I6": "C10"}.get(name[:2], "C04")


def check_inv_tagged(ex, P, g):
    for name, c in invariant(ex, P, g):
        ex.check(f"{tag_of(name)}_{name}", c)


# ---- construction: the real __init__ establishes the object invariant on state the new object owns -------------------------------
STATE_ATTRS = ("_host", "_port", "_comm_addr", "_running_loop", "_lock", "_timer", "timeout", "retries", "keep_alive",
               "protocol", "response_future", "command", "_partial_data", "_partial_missing", "_transport", "_retry")
_MUTABLE = (list, dict, set, bytearray)


def init_segment(ex, kind):
    """Base case of the monitor argument (DESIGN 2.6): the real constructor, run on arbitrary arguments, yields an object
    that satisfies the invariant the segments start from, with the configured timeout / retries, nothing open, no
    asyncio object created outside a loop - and every attribute of the state machine stored on the object itself, so
    that two protocol objects share no fragment buffer, counter or future (ownership; C07 'a fragment of one
    transmission ...', C20 independence)."""
    import goodwe.protocol as gp
    cls = gp.UdpInverterProtocol if kind == "udp" else gp.TcpInverterProtocol
    ex.unit = f"{cls.__name__}.__init__"
    T, R, A, port = ex.fresh_int("timeout"), ex.fresh_int("retries"), ex.fresh_int("comm_addr"), ex.fresh_int("port")
    ex.assume(mk_bool(z3.And(T.t >= 1, R.t >= 0, A.t >= 0, A.t <= 255, port.t >= 1, port.t <= 65535)))
    ex.inputs.update({"kind": kind, "timeout": T, "retries": R})
    g = pg(ex)
    raised = None
    try:
        P = ex.call(cls, ["host", port, A, T, R], {})
    except PyRaise as pr:
        raised = pr.exc
    ex.check("C09_constructor_raises_nothing", raised is None, detail=repr(raised))
    if raised is not None:
        return
    g.proto = P
    # every attribute the state machine reads exists (on the object or as a class default) ...
    undefined = [a for a in STATE_ATTRS if not hasattr(P, a)]
    ex.check("C04_C09_every_state_attribute_is_defined_by_construction", not undefined, detail=", ".join(undefined))
    # ... and none of it is a mutable container reachable from the class, which all objects of the process would share
    # (an immutable class-level default that methods rebind on the object is harmless and accepted)
    shared = [f"{c.__name__}.{n}" for c in cls.__mro__ if c.__module__.startswith("goodwe")
              for n, v in vars(c).items() if isinstance(v, _MUTABLE) and not n.startswith("__")]
    ex.check("C07_C20_no_mutable_class_level_state", not shared, detail=", ".join(shared))
    if undefined:
        return
    aliased = [a for a in STATE_ATTRS if isinstance(getattr(P, a), _MUTABLE) and a not in getattr(P, "__dict__", {})]
    ex.check("C07_C20_no_state_attribute_is_a_shared_container", not aliased, detail=", ".join(aliased))
    ex.check("C05_constructor_keeps_the_configured_timeout", ex.compare(_EQ, P.timeout, T))
    ex.check("C05_constructor_keeps_the_configured_retries", ex.compare(_EQ, P.retries, R))
    ex.check("C04_C05_constructor_starts_with_the_full_retry_budget", ex.compare(_EQ, P._retry, 0))
    ex.check("C10_nothing_open_after_construction", P._transport is None and not g.open)
    ex.check("C10_no_asyncio_object_is_created_outside_a_loop",
             P._lock is None and P._running_loop is None and P._timer is None and P.response_future is None)
    ex.check("C06_no_request_in_flight_after_construction", P.command is None and P.response_future is None)
    ex.check("C07_no_fragment_after_construction", P._partial_data is None and ex.compare(_EQ, P._partial_missing, 0) is True
             or bool(P._partial_data is None and ex.known(iterm(P._partial_missing) == 0)))
    ex.check("C10_keep_alive_is_off_unless_requested", P.keep_alive is False)
    check_inv_tagged(ex, P, g)



# ---- callbacks --------------------------------------------------------------------------------------------------------------
def callback_segment(ex, kind, which):
    """one protocol callback from an arbitrary invariant state"""
    from goodwe.exceptions import PartialResponseException, RequestRejectedException
    P, g = make_proto(ex, kind)
    if kind == "tcp" and which == "data_received":
        # the command in flight may be of the transport's own command family (code may test for it)
        import goodwe.protocol as gp
        g.command_classes = (gp.ProtocolCommand, gp.ModbusTcpProtocolCommand)
    arbitrary_state(ex, P, g, kind)
    ex.unit = f"{type(P).__name__}.{which}"
    # A1: data / errors reach the object only after it transmitted at least once
    if which in ("datagram_received", "data_received", "error_received"):
        ex.assume(mk_bool(iterm(g.tx) >= 1))
    # process-wide state that every protocol object of the process writes (the Modbus/TCP transaction counter) has an
    # arbitrary value whenever a callback runs: other inverter objects transmit in between (C20)
    from . import contracts as _c
    try:
        slot, _mod, _name = _c._glob_slot(ex, "goodwe.protocol._modbus_tcp_tx")
        tx_glob = ex.fresh_int("modbus_tcp_tx_of_the_process")
        ex.assume(mk_bool(z3.And(tx_glob.t >= 0, tx_glob.t <= 0xFFFF)))
        ex.glob_overlay[slot] = tx_glob
    except Exception:      # noqa  (the counter was renamed or removed: nothing to havoc)
        pass
    retry0, tx0, fut0, cmd0 = P._retry, g.tx, P.response_future, P.command
    lock0 = P._lock
    fstate0 = fut0.state if fut0 is not None else None
    partial0, missing0 = P._partial_data, P._partial_missing
    timer0 = P._timer
    ev0 = len(g.events)
    ex.inputs = {"which": which, "retry": retry0, "retries": P.retries, "fstate": fstate0 if fstate0 is not None else -1}
    args = []
    data = None
    if which in ("datagram_received", "data_received"):
        data = SBytes.fresh(ex, "data")
        args = [data] + ([("host", 8899)] if which == "datagram_received" else [])
    elif which == "error_received":
        args = [ex.new_object(OSError("EHOSTUNREACH"))]
    elif which == "connection_lost":
        args = [opt(ex, "exc?", lambda: ex.new_object(OSError("reset")))]
    elif which == "_timeout_mechanism":
        # it runs because one armed timeout fired: either the stored timer or a call_soon callback
        ex.assume(mk_bool(iterm(g.armed) >= 1))
        if P._timer is not None and ex.choose(2, tag="fired.is.timer") == 1:
            ex.assume(mk_bool(bterm(P._timer.armed)) if not isinstance(P._timer.armed, bool) else P._timer.armed)
            P._timer.armed = False
        elif P._timer is not None:
            # a call_soon callback fired while the stored timer may still be armed: both are counted
            a = P._timer.armed
            ex.assume(mk_bool(z3.Implies(bterm(a) if not isinstance(a, bool) else z3.BoolVal(a), iterm(g.armed) >= 2)))
        g.armed = mk_int(iterm(g.armed) - 1)
    raised = None
    try:
        ex.call(getattr(P, which), args, {})
    except PyRaise as pr:
        raised = pr.exc
    ex.check("C09_callback_raises_nothing", raised is None,
             detail=None if raised is None else f"{type(raised).__name__}: {raised}")
    if raised is not None:
        return
    evs = g.events[ev0:]
    check_inv_tagged(ex, P, g)
    timer_obligations(ex, P, g, evs, timer0)
    # frame: what a callback must leave alone
    got_result = any(e[0] == "set_result" for e in evs)
    same_retry = ex.compare(_EQ, P._retry, retry0)
    if got_result:
        ok = mk_bool(z3.Or(bterm(same_retry) if not isinstance(same_retry, bool) else z3.BoolVal(same_retry),
                           iterm(P._retry) == 0))
    else:
        ok = same_retry
    ex.check("C04_C05_callback_does_not_refill_retry_budget", ok,
             detail=f"_retry {retry0} -> {P._retry} in {which}")
    if got_result:
        ex.check("C05_retry_budget_reset_when_the_answer_is_delivered", ex.compare(_EQ, P._retry, 0))
    ex.check("C04_callback_does_not_transmit", ex.compare(_EQ, g.tx, tx0))
    ex.check("C06_binding_of_command_and_future_untouched", P.command is cmd0 and P.response_future is fut0)
    ex.check("C06_lock_object_is_kept_while_the_loop_is_the_same", P._lock is lock0)
    # C01 delivery: a result is set only with data the command's own validator accepted
    for e in evs:
        if e[0] == "set_result":
            ok = any(d is e[2] and o is True for d, o in g.validated)
            ex.check("C01_delivered_data_was_validated", ok)
            ex.check("C06_result_goes_to_the_future_of_the_command_in_flight", e[1] is fut0)
    if which in ("datagram_received", "data_received"):
        outcomes = [o for d, o in g.validated]
        o = outcomes[-1] if outcomes else None
        vdata = g.validated[-1][0] if g.validated else None
        composed = vdata is not data
        # C07: what the validator sees is either the datagram or (held fragment ++ datagram) when the length fits
        if composed:
            ok = (partial0 is not None and isinstance(vdata, SBytes)
                  and len(vdata.segs) == len(partial0.segs) + len(data.segs))
            ex.check("C07_composed_only_from_held_fragment_and_exact_remainder", ok)
            ex.check("C07_composed_only_when_length_is_the_missing_count",
                     ex.compare(_EQ, missing0, data.blen()))
        if o is True and fut0 is not None:
            was_pending = (fstate0 == PENDING) if isinstance(fstate0, int) else ex.known(iterm(fstate0) == PENDING)
            if was_pending:
                # an answer the command's own validator accepted reaches the caller -- whatever other objects of the
                # process did meanwhile (nothing but the validator decides about an answer)
                ex.check("C02_C06_C20_validated_answer_is_delivered",
                         any(e[0] == "set_result" and e[1] is fut0 and e[2] is vdata for e in evs))
        if not composed and isinstance(partial0, SBytes) and g.validated:
            # the converse: a held fragment followed by a piece of exactly the missing length *is* reassembled,
            # whatever the piece contains (it is payload: it may well start like a frame header)
            held = z3.And(iterm(partial0.blen()) > 0, iterm(missing0) == iterm(data.blen()))
            ex.check("C07_exact_remainder_is_reassembled", mk_bool(z3.Not(held)))
        if isinstance(o, PartialResponseException):
            ex.check("C07_fragment_is_held", P._partial_data is vdata)
            ex.check("C07_missing_count_recorded",
                     ex.compare(_EQ, P._partial_missing, mk_int(iterm(o.expected) - iterm(o.length))))
            ex.check("C04_C07_timeout_rearmed_after_fragment",
                     any(e[0] == "call_later" for e in evs) and not any(e[0] == "call_soon" for e in evs))
            ex.check("C07_fragment_does_not_touch_the_future",
                     not any(e[0] in ("set_result", "set_exception", "cancel") for e in evs))
        if isinstance(o, RequestRejectedException):
            was_pending = isinstance(fstate0, int) and fstate0 == PENDING or (
                not isinstance(fstate0, int) and ex.known(iterm(fstate0) == PENDING))
            if was_pending:
                ex.check("C08_C09_rejection_forwarded_to_the_caller_at_once",
                         any(e[0] == "set_exception" and e[2] is o for e in evs))
            ex.check("C08_C09_rejection_is_not_retried",
                     not any(e[0] in ("call_soon", "tx") for e in evs))
    if which == "_timeout_mechanism" and fut0 is not None:
        ex.check("C04_timeout_ends_the_wait",
                 mk_bool(iterm(P.response_future.state) != PENDING) if not isinstance(P.response_future.state, int)
                 else P.response_future.state != PENDING)


# ---- send_request -------------------------------------------------------------------------------------------------------------
def rely(ex, what):
    """suspension point of the requesting task: callbacks may run.  Checks the invariant, havocs what callbacks may
    modify (their proved frame: not _retry, not command / response_future identity, not the transmission count, not
    the lock) and re-assumes the invariant."""
    g = pg(ex)
    P = g.proto
    kind = "udp" if type(P).__name__.startswith("Udp") else "tcp"
    for name, c in invariant(ex, P, g):
        ex.check(f"{tag_of(name)}_{name}_before_suspension", c)
    if what == "connect" and P.response_future is not None:
        # while the connection is being set up, callbacks of the transport closed before (connection_lost is delivered
        # in a later loop iteration, A2) still arrive: they must not find a pending future of the new request to cancel
        st0 = P.response_future.state
        done = (st0 != PENDING) if isinstance(st0, int) else ex.known(iterm(st0) != PENDING)
        ex.check("C04_C10_no_future_of_the_new_request_is_pending_while_connecting", bool(done))
    start = getattr(g, "seg_start", 0)
    timer_obligations(ex, P, g, g.events[start:], getattr(g, "seg_timer", None))       # per atomic segment
    g.seg_start = len(g.events)
    # timers, fragments, transport, future state, armed count
    P._timer = lazy_timer(ex, P)
    P._partial_data = MaybeBytes(ex.fresh_bool("partial_present"))
    P._partial_missing = ex.fresh_int("missing")
    full = not (what == "connect")
    if full and P._transport is not None:
        # connection_lost / eof / a rejection may have closed and forgotten the transport
        k = ex.choose(3, tag="transport.after")
        if k == 1:
            P._transport.closing = True
            g.open = []
        elif k == 2:
            P._transport = None
            g.open = []
    f = P.response_future
    if f is not None:
        st = ex.fresh_int("fstate")
        ex.assume(mk_bool(z3.And(st.t >= 0, st.t <= 3)))
        old = f.state
        if isinstance(old, int):
            if old != PENDING:
                ex.assume(mk_bool(st.t == old))          # a finished future stays as it is
        else:
            ex.assume(mk_bool(z3.Implies(iterm(old) != PENDING, st.t == iterm(old))))
        if not (isinstance(old, int) and old != PENDING):
            f.state = st
            f.exc = lazy_exc
            f.value = SBytes.fresh(ex, "answer")
            g.validated.append((f.value, True))          # C01 delivery clause of the callbacks
            # callbacks' proved frame: _retry is left alone, except that delivering the answer resets it
            was_pending = z3.BoolVal(old == PENDING) if isinstance(old, int) else iterm(old) == PENDING
            P._retry = mk_int(z3.If(z3.And(was_pending, st.t == RESULT), z3.IntVal(0), iterm(P._retry)))
    g.armed = ex.fresh_int("armed_count")
    g.seg_timer = P._timer
    lk = P._lock
    if g.multi_caller and lk is not None and lk.is_locked is False and ex.choose(2, tag="other.task.runs") == 1:
        # several callers: whenever this task is suspended while the lock is free, another task may take it and start
        # its own request (binds its command and future, transmits)
        lk.is_locked, lk.owner = True, 2
        g.lock_events.append(("acquire", lk, 2))
        g.other_started = True
        P.command = make_command(ex, "other_cmd")
        P.response_future = ex.new_object(GFuture(PENDING))
        P.response_future.exc = lazy_exc
        g.tx = mk_int(iterm(g.tx) + 1)
    for name, c in invariant(ex, P, g):
        ex.assume(c)


def send_request_segment(ex, kind, case=None, entry=None):
    """the body of send_request from an arbitrary invariant state with the lock free, single caller.  `case` splits
    the unit by the shape of the entry state (lock created or not, transport none/open/closing, future bound or not)"""
    from goodwe.exceptions import RequestRejectedException, MaxRetriesException
    if case is not None:
        ex.forced = {"lock?": case % 2, "transport": (case // 2) % 3, "future?": (case // 6) % 2}
    P, g = make_proto(ex, kind)
    lockmode = ("none", "free", "stale_loop")[ex.choose(2, tag="lock?")] if entry is None else entry
    if entry == "contended":
        lockmode = "free"
        g.multi_caller = True
    arbitrary_state(ex, P, g, kind, lock=lockmode, lazy=True)
    ex.unit = f"{type(P).__name__}.send_request"
    g.suspensions.append(rely)
    g.on_tx.append(tx_obligations)
    g.seg_timer = P._timer
    # the command may be the very object the previous request (or the previous attempt of this one) sent: inverter
    # classes keep their read commands as class constants and send them again and again
    if P.command is not None and ex.choose(2, tag="same.command.again") == 1:
        cmd = P.command
    else:
        cmd = make_command(ex, "newcmd")
    g.current_command = cmd
    lock0 = P._lock if lockmode in ("free", "other", "mine") else None
    # requires (single requesting task): the previous request on this object has finished
    if P.response_future is not None:
        ex.assume(mk_bool(iterm(P.response_future.state) != PENDING))
    r0, tx0 = P._retry, g.tx
    ex.inputs = {"retry": r0, "retries": P.retries, "keep_alive": P.keep_alive}
    raised = None
    result = None
    from .inverter_harness import run_coro
    try:
        result = run_coro(ex, P.send_request, cmd)
    except PyRaise as pr:
        raised = pr.exc
    lock_obligations(ex, g)
    timer_obligations(ex, P, g, g.events[getattr(g, "seg_start", 0):], getattr(g, "seg_timer", None))
    # callers queue on the lock object: replacing it while the event loop is the same lets two requests run at once
    ex.check("C06_lock_object_is_kept_while_the_loop_is_the_same", lock0 is None or P._lock is lock0)
    if entry == "contended":
        return          # judged by the lock / transmission obligations above (other tasks' transmissions are in g.tx)
    if entry == "other":
        # cancelled while queued behind another task's request: that request must not be disturbed
        lk = P._lock
        still = lk is not None and lk.owner == 2 and lk.is_locked is True
        cancelled_queued = any(t == "cancelled.while.queued" and c == 1 for t, c in zip(ex.tags, ex.trace))
        if cancelled_queued:
            ex.check("C06_queued_caller_leaves_the_holders_lock_alone", bool(still))
            ex.check("C06_queued_caller_does_not_transmit", ex.compare(_EQ, g.tx, tx0))
            return
        raise interp.PathEnd()       # the lock was obtained after the holder finished: covered by the other entries
    # ---- every exit
    ex.check("C04_C05_retry_budget_restored_on_every_exit", ex.compare(_EQ, P._retry, 0),
             detail=f"exit with _retry={P._retry}; " + ("returned" if raised is None else f"raised {type(raised).__name__}"))
    used = iterm(g.tx) - iterm(tx0)
    ex.check("C04_transmissions_bounded_by_retry_budget",
             mk_bool(z3.And(used >= 0, used <= iterm(P.retries) - iterm(r0) + 1)))
    lk = P._lock
    free = lk is None or (lk.is_locked is False) or (not isinstance(lk.is_locked, bool) and ex.known(
        z3.Not(bterm(lk.is_locked))))
    ex.check("C06_lock_released_on_every_exit", bool(free))
    if kind == "udp":
        ka = P.keep_alive
        keep = ka if isinstance(ka, bool) else ex.branch(bterm(ka), tag="keep_alive")
        if not keep:
            ex.check("C10_no_transport_left_open_without_keep_alive", not g.open)
    check_inv_tagged(ex, P, g)
    if raised is not None:
        ex.check("C09_send_request_raises_only_rejection_or_oserror",
                 isinstance(raised, (RequestRejectedException, OSError)),
                 detail=f"{type(raised).__name__}: {raised}")
        return
    # ---- normal return: a finished future, either the validated answer or MaxRetriesException
    if isinstance(result, GFuture) and result.exc is MaxRetriesException and result.state == EXCEPTION:
        failed = g.connect_failed or g.send_failed
        cf = getattr(g, "callee_connect_failed", None)
        exact = mk_bool(used == iterm(P.retries) - iterm(r0) + 1)
        if not failed:
            if cf is not None:
                exact = mk_bool(z3.Or(cf.t, used == iterm(P.retries) - iterm(r0) + 1))
            ex.check("C04_silent_peer_gets_exactly_retries_plus_one_transmissions", exact)
    ok = isinstance(result, GFuture)
    ex.check("C04_returns_a_finished_future", ok and (
        (result.state != PENDING) if isinstance(result.state, int) else ex.known(iterm(result.state) != PENDING)))


def apply_send_request_contract(ex, bound):
    """contract of the recursive call: requires the invariant, a strictly smaller variant and the lock released by the
    caller; ensures the exit post-conditions proved for the body"""
    g = pg(ex)
    P = bound["self"]
    entry = getattr(g, "entry_retry", None)
    for name, c in invariant(ex, P, g):
        ex.check(f"{tag_of(name)}_{name}_at_recursive_call", c)
    lk = P._lock
    held = lk is not None and (lk.is_locked is True or (not isinstance(lk.is_locked, bool) and not ex.known(
        z3.Not(bterm(lk.is_locked)))))
    ex.check("C04_C06_lock_not_held_when_reentering", not held)
    cur = getattr(g, "current_command", None)
    if cur is not None:
        # a retry transmits the request it retries, not whatever the object remembers from an earlier one
        ex.check("C06_C18_retry_resends_the_command_of_this_request", bound.get("command") is cur)
    f = P.response_future
    done = f is None or (f.state != PENDING if isinstance(f.state, int) else ex.known(iterm(f.state) != PENDING))
    ex.check("C04_no_request_in_flight_when_reentering", bool(done))
    return None


def execute_segment(ex, kind):
    """ProtocolCommand.execute over send_request's contract: exception mapping (C09) and closing (C10)"""
    from goodwe.exceptions import RequestFailedException, RequestRejectedException, MaxRetriesException
    P, g = make_proto(ex, kind)
    arbitrary_state(ex, P, g, kind, lock="free", lazy=True)
    ex.unit = f"execute@{type(P).__name__}"
    g.suspensions.append(rely)
    g.on_tx.append(tx_obligations)
    cmd = make_command(ex, "newcmd")
    if P.response_future is not None:
        ex.assume(mk_bool(iterm(P.response_future.state) != PENDING))     # previous request finished
    ex.inputs = {"keep_alive": P.keep_alive}
    from .inverter_harness import run_coro
    raised = None
    try:
        resp = run_coro(ex, cmd.execute, P)
    except PyRaise as pr:
        raised = pr.exc
    ex.check("C09_execute_raises_only_InverterError_family",
             raised is None or isinstance(raised, (RequestFailedException, RequestRejectedException,
                                                   MaxRetriesException)),
             detail=None if raised is None else f"{type(raised).__name__}: {raised}")
    ka = P.keep_alive
    keep = ka if isinstance(ka, bool) else ex.branch(bterm(ka), tag="keep_alive")
    if not keep:
        ex.check("C10_no_transport_open_after_request_without_keep_alive", not g.open)
    if raised is None:
        ex.check("C01_response_carries_validated_data",
                 any(d is resp.raw_data and o is True for d, o in g.validated) or getattr(g, "contract_result", None)
                 is resp.raw_data)


def close_segment(ex, kind):
    P, g = make_proto(ex, kind)
    arbitrary_state(ex, P, g, kind, lock="free", lazy=True)
    ex.unit = f"{type(P).__name__}.close"
    g.suspensions.append(rely)
    from .inverter_harness import run_coro
    lock0 = P._lock
    raised = None
    try:
        run_coro(ex, P.close)
    except PyRaise as pr:
        raised = pr.exc
    ex.check("C09_close_raises_nothing", raised is None, detail=repr(raised))
    ex.check("C10_nothing_open_after_close", not g.open)
    ex.check("C06_lock_object_is_kept_while_the_loop_is_the_same", P._lock is lock0)
    lk = P._lock
    free = lk is None or (lk.is_locked is False) or (not isinstance(lk.is_locked, bool) and ex.known(
        z3.Not(bterm(lk.is_locked))))
    ex.check("C06_lock_released_on_every_exit", bool(free))


def _callee_effect(ex, P, g):
    """post-state of a completed send_request activation (the exit obligations proved for the body)"""
    r_in = P._retry
    k = ex.fresh_int("callee_tx")
    ex.assume(mk_bool(z3.And(k.t >= 0, k.t <= iterm(P.retries) - iterm(r_in) + 1)))
    g.tx = mk_int(iterm(g.tx) + k.t)
    g.callee_tx, g.callee_budget = k, mk_int(iterm(P.retries) - iterm(r_in) + 1)
    P._retry = 0
    if P._lock is None:
        P._lock = ex.new_object(GLock(False, 0))
    P._lock.is_locked = False
    P._lock.owner = 0
    P._running_loop = g.loop
    # everything callbacks and the activation itself may have changed, then the invariant
    kind = "udp" if type(P).__name__.startswith("Udp") else "tcp"
    k = ex.choose(3, tag="transport")
    P._transport = None if k == 0 else ex.new_object(GTransport(kind, k == 2))
    g.open = [P._transport] if k == 1 else []
    if kind == "udp" and k == 1:
        ka = P.keep_alive
        keep = ka if isinstance(ka, bool) else ex.branch(bterm(ka), tag="keep_alive")
        if not keep:
            raise interp.Infeasible()          # proved exit post: nothing open without keep-alive
    if P._timer is not None:
        P._timer.armed = False       # callee's proved post: the handle it found was cancelled or is still remembered
    P._timer = lazy_timer(ex, P)
    g.seg_timer = P._timer
    P._partial_data = MaybeBytes(ex.fresh_bool("partial_present"))
    P._partial_missing = ex.fresh_int("missing")
    g.armed = ex.fresh_int("armed_count")


def send_request_result(ex, bound):
    from goodwe.exceptions import MaxRetriesException
    g = pg(ex)
    P = bound["self"]
    _callee_effect(ex, P, g)
    f = ex.new_object(GFuture(RESULT))
    if ex.choose(2, tag="callee.outcome") == 1:
        f.state = EXCEPTION
        f.exc = MaxRetriesException
        # proved for the body: retries exhausted without a connect failure means every attempt was transmitted
        cf = ex.fresh_bool("callee_connect_failed")
        g.callee_connect_failed = cf
        ex.assume(mk_bool(z3.Or(cf.t, iterm(g.callee_tx) == iterm(g.callee_budget))))
    else:
        f.value = SBytes.fresh(ex, "answer")
        g.validated.append((f.value, True))
        g.contract_result = f.value
    P.response_future = f
    P.command = bound["command"]
    for name, c in invariant(ex, P, g):
        ex.assume(c)
    return f


def send_request_raised(ex, E, bound):
    from goodwe.exceptions import RequestRejectedException
    g = pg(ex)
    P = bound["self"]
    _callee_effect(ex, P, g)
    f = ex.new_object(GFuture(EXCEPTION))
    P.response_future = f
    P.command = bound["command"]
    for name, c in invariant(ex, P, g):
        ex.assume(c)
    if E is RequestRejectedException:
        return ex.new_object(RequestRejectedException(models.fresh_strid(ex, "reason")))
    return ex.new_object(OSError("transport error"))


# ---- C01: the validator a command carries answers *that very request* ----------------------------------------------------------
BINDING_CLASSES = ("ModbusRtuReadCommand", "ModbusRtuWriteCommand", "ModbusRtuWriteMultiCommand",
                   "ModbusTcpReadCommand", "ModbusTcpWriteCommand", "ModbusTcpWriteMultiCommand",
                   "Aa55ReadCommand", "Aa55WriteCommand", "Aa55WriteMultiCommand")


def command_binding(ex, clsname):
    """build the command from arbitrary arguments of its domain (the real constructor runs), hand its validator an
    arbitrary byte string and require: accepted => well-formed answer to the operation the arguments denote (spec
    functions wf_rtu / wf_tcp / wf_aa55 of the sidecars, i.e. function code, count / echo and checksum of C01)"""
    import goodwe.protocol as gp
    from . import contracts
    import contracts.modbus as cm
    import contracts.protocol_cmd as cp
    cls = getattr(gp, clsname)
    ex.unit = f"binding:{clsname}"
    aa55 = clsname.startswith("Aa55")
    multi = "Multi" in clsname
    read = "Read" in clsname
    offset = ex.fresh_int("offset")
    ex.assume(mk_bool(z3.And(offset.t >= 0, offset.t <= 0xFFFF)))
    args = [] if aa55 else [ex.fresh_int("comm_addr")]
    if not aa55:
        ex.assume(mk_bool(z3.And(args[0].t >= 0, args[0].t <= 255)))
    args.append(offset)
    values = None
    if read:
        value = ex.fresh_int("count")
        ex.assume(mk_bool(z3.And(value.t >= 1, value.t <= 125)))
        args.append(value)
    elif multi:
        values = SBytes.fresh(ex, "values")
        n = iterm(values.blen())
        ex.assume(mk_bool(n == 8) if aa55 else mk_bool(z3.And(n >= 2, n <= 246, n % 2 == 0)))
        args.append(values)
        value = mk_int(n / 2)
    else:
        value = ex.fresh_int("value")
        ex.assume(mk_bool(z3.And(value.t >= -32768, value.t <= 32767)))
        args.append(value)
    ex.inputs = {"cls": clsname, "comm_addr": args[0] if not aa55 else 0, "offset": offset,
                 "value": value if values is None else 0, "values": values if values is not None else b""}
    cmd = ex.call(cls, args, {})
    data = SBytes.fresh(ex, "data")
    ex.inputs["data"] = data
    fn = 3 if read else (16 if multi else 6)

    def wellformed():
        if aa55:
            return contracts.eval_spec_value(ex, cp.wf_aa55, [data, "019A" if read else "02B9"])
        if "Rtu" in clsname:
            return contracts.eval_spec_value(ex, cm.wf_rtu, [data, fn, offset, value])
        return contracts.eval_spec_value(ex, cm.wf_tcp, [data, fn, offset, value])

    def negate(v):
        return (not v) if isinstance(v, bool) else mk_bool(z3.Not(bterm(v)))
    try:
        res = ex.call(cmd.validator, [data], {})
    except PyRaise as pr:
        from goodwe.exceptions import PartialResponseException, RequestRejectedException
        ex.check("C01_C02_C04_C09_validator_of_the_command_raises_only_documented_outcomes",
                 isinstance(pr.exc, (PartialResponseException, RequestRejectedException)), detail=repr(pr.exc)[:120])
        ex.check("C02_wellformed_answer_to_this_very_request_is_accepted", negate(wellformed()),
                 detail=f"validator raised {type(pr.exc).__name__}")
        return
    t = ex.truth_value(res)
    accepted = t if isinstance(t, bool) else ex.branch(t.t, tag="accepted")
    if not accepted:
        ex.check("C02_wellformed_answer_to_this_very_request_is_accepted", negate(wellformed()),
                 detail="validator returned False")
        return
    ex.check("C01_accepted_answer_is_wellformed_for_this_very_request", wellformed())
    ex.check("C02_wellformed_answer_to_this_very_request_is_accepted", True)
