"""Native side of replay / differential / exhaustive runs.  Executed by /venv/bin/python (the interpreter the
repository's own tests use); pure stdlib + the code under test + the sidecar contract files.

usage: python -m pyvc.native < tasks.json > results.json       (env GOODWE_REPO selects the tree)
"""
from __future__ import annotations

import importlib
import json
import os
import sys
import traceback


def enc(v):
    if v is None or isinstance(v, (bool, int, str)):
        return v
    if isinstance(v, bytes):
        return {"$b": v.hex()}
    if isinstance(v, bytearray):
        return {"$ba": v.hex()}
    if isinstance(v, float):
        return {"$f": repr(v)}
    if isinstance(v, tuple):
        return {"$t": [enc(x) for x in v]}
    if isinstance(v, list):
        return [enc(x) for x in v]
    if isinstance(v, dict):
        return {"$d": [[enc(k), enc(x)] for k, x in v.items()]}
    if isinstance(v, type):
        return {"$cls": v.__name__}
    if type(v).__name__ == "_New":
        return {"$new": v.cls.__module__ + "." + v.cls.__qualname__, "attrs": {k: enc(x) for k, x in v.attrs.items()}}
    return {"$r": repr(v), "$type": type(v).__name__}


def dec(v):
    if isinstance(v, list):
        return [dec(x) for x in v]
    if isinstance(v, dict):
        if "$b" in v:
            return bytes.fromhex(v["$b"])
        if "$ba" in v:
            return bytearray.fromhex(v["$ba"])
        if "$f" in v:
            return float(v["$f"])
        if "$t" in v:
            return tuple(dec(x) for x in v["$t"])
        if "$d" in v:
            return {dec(k): dec(x) for k, x in v["$d"]}
        if "$new" in v:
            cls = resolve(v["$new"])
            obj = cls.__new__(cls)
            for k, x in v.get("attrs", {}).items():
                try:
                    setattr(obj, k, dec(x))
                except Exception:      # noqa
                    pass
            return obj
        if "$sym" in v or "$r" in v:
            return None
        raise ValueError(f"cannot decode {v}")
    return v


def resolve(key):
    parts = key.split(".")
    for i in range(len(parts), 0, -1):
        try:
            obj = importlib.import_module(".".join(parts[:i]))
        except ImportError:
            continue
        for p in parts[i:]:
            obj = obj.__dict__[p] if isinstance(obj, type) and p in obj.__dict__ else getattr(obj, p)
        return getattr(obj, "__func__", obj) if isinstance(obj, (staticmethod, classmethod)) else obj
    raise KeyError(key)


def exc_attrs(e):
    out = {}
    for k, v in getattr(e, "__dict__", {}).items():
        out[k] = enc(v)
    out["$str"] = str(e)[:200]
    return out


def run_call(fn, args, kwargs=None):
    try:
        r = fn(*args, **(kwargs or {}))
        return {"kind": "return", "value": enc(r)}, r, None
    except BaseException as e:      # noqa: every exception class is an observable outcome here
        return {"kind": "raise", "cls": type(e).__name__, "mro": [c.__name__ for c in type(e).__mro__],
                "attrs": exc_attrs(e)}, None, e


def call_by_names(f, env):
    import inspect
    names = list(inspect.signature(f).parameters)
    return f(*[env[n] for n in names])


def op_clause(task):
    """run the real function on the witness and evaluate one contract clause natively"""
    importlib.import_module("contracts." + task["sidecar"])
    from pyvc.api import REGISTRY
    c = REGISTRY[task["key"]]
    fn = resolve(task["key"])
    argnames = task["argnames"]
    args = [dec(a) for a in task["args"]]
    env = dict(zip(argnames, args))
    gl = {}
    for dotted in c.globals_in:
        modname, _, name = dotted.rpartition(".")
        mod = importlib.import_module(modname)
        if "old_" + name in task.get("extra", {}):
            setattr(mod, name, dec(task["extra"]["old_" + name]))
        env["old_" + name] = getattr(mod, name)
        gl[name] = mod
    if c.requires is not None and not call_by_names(c.requires, env):
        return {"holds": None, "reason": "witness violates requires"}
    outcome, result, exc = run_call(fn, args)
    for name, mod in gl.items():
        env["new_" + name] = getattr(mod, name)
    clause = task["clause"]
    res = {"outcome": outcome}
    if clause.endswith("raises_only"):
        if exc is None:
            res["holds"] = True
        else:
            res["holds"] = c.raises_only is None or any(isinstance(exc, a) for a in c.raises_only)
        return res
    f = c.clause(clause)
    if f is None:
        return dict(res, holds=None, reason="no such clause")
    if clause.startswith("ensures"):
        if exc is not None:
            return dict(res, holds=None, reason="real function raised, clause is about normal return")
        env["result"] = result
    elif clause.startswith("raises_"):
        excname = clause[len("raises_"):].split("__")[0]
        if exc is None or excname not in [k.__name__ for k in type(exc).__mro__]:
            return dict(res, holds=None, reason="real function did not raise that exception")
        env["raised"] = exc
    try:
        res["holds"] = bool(call_by_names(f, env))
    except Exception as e:      # a clause that cannot be evaluated on the real outcome does not hold
        res["holds"] = False
        res["clause_error"] = repr(e)
    return res


def op_call(task):
    fn = resolve(task["key"])
    outcome, _, _ = run_call(fn, [dec(a) for a in task["args"]])
    return outcome


def op_func(task):
    mod = importlib.import_module(task["module"])
    f = getattr(mod, task["func"])
    kwargs = {k: dec(v) for k, v in task.get("kwargs", {}).items()}
    return enc(f(**kwargs))


OPS = {"clause": op_clause, "call": op_call, "func": op_func}


def main():
    repo = os.environ.get("GOODWE_REPO", "/repo")
    verif = os.path.dirname(os.path.dirname(os.path.abspath(__file__)))
    for p in (verif, repo):
        if p in sys.path:
            sys.path.remove(p)
    sys.path.insert(0, verif)
    sys.path.insert(0, repo)
    import goodwe
    if not os.path.realpath(goodwe.__file__).startswith(os.path.realpath(repo)):
        print(json.dumps({"fatal": f"goodwe imported from {goodwe.__file__}, expected under {repo}"}))
        return 3
    def run(tasks):
        out = []
        for t in tasks:
            try:
                out.append({"ok": True, "result": OPS[t["op"]](t)})
            except BaseException as e:      # noqa
                out.append({"ok": False, "error": repr(e), "trace": traceback.format_exc()[-2000:]})
        return out

    if "--serve" in sys.argv:
        # one JSON list of tasks per input line, one JSON list of results per output line
        real_out = sys.stdout
        sys.stdout = sys.stderr          # anything the code under test prints must not corrupt the channel
        for line in sys.stdin:
            line = line.strip()
            if not line:
                continue
            real_out.write(json.dumps(run(json.loads(line))) + "\n")
            real_out.flush()
        return 0
    tasks = json.load(sys.stdin)
    json.dump(run(tasks), sys.stdout)
    return 0


if __name__ == "__main__":
    sys.exit(main())
