"""The executor: a mixed concrete/symbolic interpreter over the `ast` of the code under verification.

One `Exec` instance = one path.  Paths are enumerated by deterministic re-execution with a decision prefix
(`explore`).  See DESIGN.md section 2.
"""
from __future__ import annotations

import ast
import builtins
import operator
import os
import time
import types

import z3

from .sym import (Sym, SInt, SBool, SFloat, SStr, SAny, SymLeak, Unsupported, is_sym, mk_int, mk_bool, iterm, bterm,
                  fterm, is_intlike, Flt, F_OF_INT, F_DIV, F_MUL, F_ADD, F_SUB, F_NEG, F_ABS, F_LT, F_LE,
                  B_XOR, B_AND, B_OR)
from .sbytes import SBytes, HexStr, ESeg, ASeg, format_hex, zt, norm, wrap

_CUR = None


def current():
    if _CUR is None:
        raise RuntimeError("no executor active")
    return _CUR


# ---- control signals --------------------------------------------------------------------------------
class PyRaise(Exception):
    """a python exception raised by the interpreted program"""

    def __init__(self, exc, cause_from_none=False):
        super().__init__(repr(exc))
        self.exc = exc


class ReturnSig(Exception):
    def __init__(self, value):
        self.value = value


class BreakSig(Exception):
    pass


class ContinueSig(Exception):
    pass


class PathEnd(Exception):
    """path deliberately ended (e.g. after the preservation check of a loop invariant)"""


class Infeasible(Exception):
    """an assumption made the path condition unsatisfiable"""


class Budget(Exception):
    pass


# ---- runtime objects ---------------------------------------------------------------------------------
class Env:
    __slots__ = ('vars', 'parent')

    def __init__(self, parent=None):
        self.vars = {}
        self.parent = parent

    def lookup(self, name):
        e = self
        while e is not None:
            if name in e.vars:
                return e.vars[name]
            e = e.parent
        raise KeyError(name)

    def has(self, name):
        e = self
        while e is not None:
            if name in e.vars:
                return True
            e = e.parent
        return False


class Closure:
    """function value created by the interpreter (lambda / nested def)"""

    def __init__(self, info, env, globs, defaults, kwdefaults, cls, ex_world):
        self.info = info
        self.env = env
        self.globs = globs
        self.defaults = defaults
        self.kwdefaults = kwdefaults
        self.cls = cls
        self.__name__ = getattr(info.node, 'name', '<lambda>')

    def __call__(self, *args, **kw):       # native code (filter, map, sorted ...) calling back
        return current().call(self, list(args), kw)

    def __get__(self, obj, objtype=None):
        return self


class BoundModel:
    """method of a symbolic value, e.g. SBytes.hex"""

    def __init__(self, fn, selfv, name):
        self.fn = fn
        self.selfv = selfv
        self.name = name

    def __call__(self, *a, **k):
        return self.fn(current(), self.selfv, *a, **k)


_MISSING = object()


def _symkeyed(d, key):
    """a dict operation that python's hashing would get wrong: the key or some existing key is a sequence with
    symbolic members (the wrappers hash by identity)"""
    if isinstance(key, (tuple, list)) and _has_sym(key):
        return True
    return isinstance(key, tuple) and any(isinstance(k, tuple) and _has_sym(k) for k in d)


def _has_sym(v, depth=0):
    if is_sym(v):
        return True
    if depth < 3 and isinstance(v, (tuple, list)):
        return any(_has_sym(x, depth + 1) for x in v)
    return False


class Frame:
    __slots__ = ('env', 'globs', 'cls', 'info', 'selfobj')

    def __init__(self, env, globs, cls, info, selfobj=None):
        self.env = env
        self.globs = globs
        self.cls = cls
        self.info = info
        self.selfobj = selfobj


class VC:
    __slots__ = ('name', 'verdict', 'backend', 'time', 'model', 'smt2', 'path', 'detail')

    def __init__(self, name, verdict, backend, t, model=None, smt2=None, path=None, detail=None):
        self.name = name
        self.verdict = verdict      # 'discharged' | 'refuted' | 'unknown'
        self.backend = backend
        self.time = t
        self.model = model
        self.smt2 = smt2
        self.path = path
        self.detail = detail


_BINOPS = {ast.Add: operator.add, ast.Sub: operator.sub, ast.Mult: operator.mul, ast.Div: operator.truediv,
           ast.FloorDiv: operator.floordiv, ast.Mod: operator.mod, ast.Pow: operator.pow,
           ast.LShift: operator.lshift, ast.RShift: operator.rshift, ast.BitOr: operator.or_,
           ast.BitXor: operator.xor, ast.BitAnd: operator.and_}
_CMPOPS = {ast.Eq: operator.eq, ast.NotEq: operator.ne, ast.Lt: operator.lt, ast.LtE: operator.le,
           ast.Gt: operator.gt, ast.GtE: operator.ge}

SOLVER_TIMEOUT_MS = 60000


class Exec:
    def __init__(self, world, prefix=(), unit="", contracts=None, timeout_ms=SOLVER_TIMEOUT_MS):
        self.world = world
        self.unit = unit
        self.contracts = contracts if contracts is not None else {}
        self.prefix = list(prefix)
        self.trace = []            # decisions taken (bools / ints)
        self.tags = []             # tag per decision (for path signatures)
        self.pending = []          # newly discovered prefixes
        self.pc = []
        self.solver = z3.Solver()
        self.solver.set("timeout", timeout_ms)
        self.timeout_ms = timeout_ms
        self.vcs = []
        self.spec_mode = 0
        self.bv_mode = False
        self.counter = 0
        self.frames = []
        self.glob_overlay = {}     # (id(module dict), name) -> value
        self.undo = []             # (obj, attr, had, old) for stores on pre-existing objects
        self.fresh_objs = set()    # id() of objects created on this path
        self.keep = []             # keep fresh objects alive so ids stay unique
        self.writes = []           # (obj, attr) stores on pre-existing objects (frame conditions)
        self.events = []           # ghost event log
        self.str_facts = {}        # cache of fresh booleans for opaque string predicates
        self.inlined = set()
        self.called_contracts = set()
        self.native_calls = 0
        self.loop_mode = {}        # (func key, loop ordinal) -> handled
        self.verify_key = None
        self.depth = 0
        self.solver_time = 0.0
        self.nqueries = 0
        self.inputs = {}           # name -> symbolic value (declared inputs of the unit, for replay)
        self.notes = []
        self.ghost = None
        self.assuming = 0
        self.path_end_hooks = []
        self.forced = {}
        self.dump_smt2 = False

    # ---- fresh symbols ----------------------------------------------------------------------------
    def _name(self, base):
        self.counter += 1
        return f"{base}!{self.counter}"

    def fresh_int(self, base="i"):
        if self.bv_mode:
            return SInt(z3.BitVec(self._name(base), 32))
        return SInt(z3.Int(self._name(base)))

    def fresh_bool(self, base="b"):
        return SBool(z3.Bool(self._name(base)))

    def fresh_arr(self, base="a"):
        return z3.Array(self._name(base), z3.IntSort(), z3.IntSort())

    def fresh_float(self, base="f"):
        return SFloat(z3.Const(self._name(base), Flt))

    def fresh_str(self, base="s"):
        ln = self.fresh_int(base + "_len")
        self.fact(ln.t >= 0)
        return SStr(self._name(base), ln, base)

    def fresh_any(self, base="v"):
        return SAny(self._name(base))

    # ---- path condition -----------------------------------------------------------------------------
    def add(self, term):
        self.pc.append(term)
        self.solver.add(term)

    def fact(self, term):
        """background fact that is true by construction (typing of bytes, definition of a fold)"""
        term = z3.simplify(term)
        if z3.is_true(term):
            return
        self.add(term)

    def byte_fact(self, sel):
        if z3.is_int_value(sel):
            return
        key = sel.get_id()
        if key in self.str_facts:
            return
        self.str_facts[key] = True
        self.add(z3.And(sel >= 0, sel <= 255))

    def _check(self, *extra, budget_ms=None):
        t0 = time.time()
        self.nqueries += 1
        if budget_ms is not None:
            self.solver.set("timeout", budget_ms)
            try:
                return self._check(*extra)
            finally:
                self.solver.set("timeout", self.timeout_ms)
        if extra:
            self.solver.push()
            for e in extra:
                self.solver.add(e)
            r = self.solver.check()
            self.solver.pop()
        else:
            r = self.solver.check()
        self.solver_time += time.time() - t0
        return r

    def assume(self, cond):
        if isinstance(cond, bool):
            if not cond:
                raise Infeasible()
            return
        if not isinstance(cond, SBool):
            raise Unsupported(f"assume of non-boolean {cond!r}")
        self.add(cond.t)
        if self._check() == z3.unsat:
            raise Infeasible()

    def known(self, term):
        """pc |= term ?"""
        if isinstance(term, bool):
            return term
        term = z3.simplify(term)
        if z3.is_true(term):
            return True
        if z3.is_false(term):
            return False
        # a side query that only buys precision: bounded so that a hard instance cannot stall the exploration
        return self._check(z3.Not(term), budget_ms=5000) == z3.unsat

    def concretize(self, t):
        """python int if the term has a single possible value under pc, else the term"""
        t = norm(t)
        if isinstance(t, int):
            return t
        if self._check() != z3.sat:
            return t
        m = self.solver.model()
        v = m.eval(t, model_completion=True)
        if z3.is_int_value(v) and self.known(t == v):
            return v.as_long()
        return t

    def branch(self, cond, tag=""):
        """decide a symbolic condition; returns the python bool taken on this path"""
        if isinstance(cond, bool):
            return cond
        if isinstance(cond, SBool):
            cond = cond.t
        cond = z3.simplify(cond)
        if z3.is_true(cond):
            return True
        if z3.is_false(cond):
            return False
        idx = len(self.trace)
        if idx < len(self.prefix):
            choice = self.prefix[idx]
        else:
            rt = self._check(cond)
            rf = self._check(z3.Not(cond))
            can_t = rt != z3.unsat
            can_f = rf != z3.unsat
            if can_t and can_f:
                choice = True
                self.pending.append(self.trace + [False])
            elif can_t:
                choice = True
            elif can_f:
                choice = False
            else:
                raise Infeasible()
        self.trace.append(choice)
        self.tags.append(tag)
        self.add(cond if choice else z3.Not(cond))
        return choice

    def choose(self, n, tag=""):
        """non-deterministic choice among n alternatives (all explored)"""
        if n <= 1:
            return 0
        if tag in self.forced:          # a unit split into sub-units by the value of an early choice
            return self.forced[tag]
        idx = len(self.trace)
        if idx < len(self.prefix):
            choice = self.prefix[idx]
        else:
            choice = 0
            for k in range(1, n):
                self.pending.append(self.trace + [k])
        self.trace.append(choice)
        self.tags.append(tag)
        return choice

    # ---- verification conditions -----------------------------------------------------------------------
    def check(self, name, cond, detail=None):
        full = f"{self.unit}/{name}" if self.unit else name
        t0 = time.time()
        if isinstance(cond, bool):
            if cond:
                self.vcs.append(VC(full, 'discharged', 'ground', 0.0, path=list(self.trace), detail=detail))
            else:
                # false on this (feasible?) path: refuted iff the path is feasible
                r = self._check()
                if r == z3.unsat:
                    self.vcs.append(VC(full, 'discharged', 'z3', time.time() - t0, path=list(self.trace)))
                else:
                    m = self.solver.model() if r == z3.sat else None
                    self.vcs.append(VC(full, 'refuted' if r == z3.sat else 'unknown', 'z3', time.time() - t0, model=m,
                                       path=list(self.trace), detail=detail))
            return
        if not isinstance(cond, SBool):
            raise Unsupported(f"check of non-boolean value {cond!r} in {full}")
        neg = z3.Not(cond.t)
        self.solver.push()
        self.solver.add(neg)
        self.nqueries += 1
        r = self.solver.check()
        dt = time.time() - t0
        self.solver_time += dt
        if r == z3.unsat:
            self.vcs.append(VC(full, 'discharged', 'z3', dt, path=list(self.trace), detail=detail,
                               smt2=self.solver.to_smt2() if self._want_smt2(full) else None))
        elif r == z3.sat:
            self.vcs.append(VC(full, 'refuted', 'z3', dt, model=self.solver.model(), path=list(self.trace),
                               detail=detail))
        else:
            smt2 = self.solver.to_smt2()
            self.vcs.append(VC(full, 'unknown', 'z3', dt, smt2=smt2, path=list(self.trace), detail=detail))
        self.solver.pop()

    def _want_smt2(self, full):
        """thorough tier: dump the query for the second solver -- every one (contract units) or the first instance of
        each obligation name (scenario units, where one name has thousands of path instances)"""
        d = self.dump_smt2
        if d is False or d is None:
            return False
        if d is True:
            return True
        if full in d:
            return False
        d.add(full)
        return True

    # ---- exceptions ----------------------------------------------------------------------------------------
    def raise_builtin(self, cls, msg=""):
        raise PyRaise(cls(msg))

    def check_byte_range(self, val):
        """bytearray store / bytes([...]) element: CPython raises ValueError outside 0..255"""
        if isinstance(val, int):
            if not 0 <= val <= 255:
                self.raise_builtin(ValueError, "byte must be in range(0, 256)")
            return
        if not isinstance(val, (SInt, SBool)):
            self.raise_builtin(TypeError, "an integer is required")
        t = iterm(val)
        ok = z3.And(t >= 0, t <= 255)
        if not self.known(ok):
            if self.branch(z3.Not(ok), tag="byte.out_of_range"):
                self.raise_builtin(ValueError, "byte must be in range(0, 256)")

    # ---- heap -----------------------------------------------------------------------------------------------
    def new_object(self, obj):
        self.fresh_objs.add(id(obj))
        self.keep.append(obj)
        return obj

    def is_fresh(self, obj):
        return id(obj) in self.fresh_objs

    def setattr(self, obj, name, value):
        if isinstance(obj, Sym):
            raise Unsupported(f"attribute store on symbolic value {obj!r}.{name}")
        if hasattr(obj, '_pyvc_setattr'):
            return obj._pyvc_setattr(self, name, value)
        if not self.is_fresh(obj):
            d = getattr(obj, '__dict__', None)
            if d is not None and name in d:
                self.undo.append((obj, name, True, d[name]))
            else:
                self.undo.append((obj, name, False, None))
            self.writes.append((obj, name))
        try:
            object.__setattr__(obj, name, value) if not isinstance(obj, type) else type.__setattr__(obj, name, value)
        except Exception as e:        # noqa
            raise PyRaise(e)

    def rollback(self):
        for obj, name, had, old in reversed(self.undo):
            try:
                if had:
                    object.__setattr__(obj, name, old) if not isinstance(obj, type) else type.__setattr__(obj, name, old)
                else:
                    object.__delattr__(obj, name) if not isinstance(obj, type) else type.__delattr__(obj, name)
            except Exception:
                pass
        self.undo.clear()

    # ---- truthiness ------------------------------------------------------------------------------------------
    def truth_value(self, v):
        """truth of v as bool or SBool (no forking)"""
        if isinstance(v, bool):
            return v
        if isinstance(v, SBool):
            return v
        if isinstance(v, SInt):
            if z3.is_bv(v.t):
                return mk_bool(v.t != z3.BitVecVal(0, v.t.size()))
            return mk_bool(v.t != 0)
        if isinstance(v, SBytes):
            return v.truth()
        if isinstance(v, SStr):
            if v.length is None:
                return self.fresh_bool("str_nonempty")
            return mk_bool(iterm(v.length) > 0)
        if isinstance(v, HexStr):
            return True
        if isinstance(v, SFloat):
            return mk_bool(v.t != fterm(0))
        if type(v).__name__ == 'SStrId':
            from .models import intern_str
            return mk_bool(z3.And(v.t != 0, v.t != intern_str("")))
        if isinstance(v, SAny):
            k = ('truth', v.key)
            if k not in self.str_facts:
                self.str_facts[k] = self.fresh_bool("truth")
            return self.str_facts[k]
        if hasattr(v, '_pyvc_truth'):
            return v._pyvc_truth(self)
        try:
            return bool(v)
        except SymLeak:
            raise
        except Exception as e:
            raise PyRaise(e)

    def truth(self, v, tag=""):
        t = self.truth_value(v)
        if isinstance(t, bool):
            return t
        if self.spec_mode:
            raise Unsupported("fork on a symbolic condition inside a specification expression")
        return self.branch(t.t, tag=tag)

    # ---- name lookup -----------------------------------------------------------------------------------------
    def lookup(self, name, fr):
        try:
            return fr.env.lookup(name)
        except KeyError:
            pass
        k = (id(fr.globs), name)
        if k in self.glob_overlay:
            return self.glob_overlay[k]
        if name in fr.globs:
            return fr.globs[name]
        if hasattr(builtins, name):
            return getattr(builtins, name)
        raise PyRaise(NameError(f"name '{name}' is not defined"))

    @staticmethod
    def mangle(name, fr):
        if name.startswith("__") and not name.endswith("__") and fr.info is not None and fr.info.clsname:
            return "_" + fr.info.clsname.lstrip("_") + name
        return name

    # ---- expressions -----------------------------------------------------------------------------------------
    def eval(self, node, fr):
        m = getattr(self, "e_" + type(node).__name__, None)
        if m is None:
            raise Unsupported(f"expression {type(node).__name__} at line {getattr(node, 'lineno', '?')}")
        return m(node, fr)

    def e_Constant(self, node, fr):
        return node.value

    def e_Name(self, node, fr):
        return self.lookup(node.id, fr)

    def e_Tuple(self, node, fr):
        return tuple(self.eval_seq(node.elts, fr))

    def e_List(self, node, fr):
        return list(self.eval_seq(node.elts, fr))

    def e_Set(self, node, fr):
        return set(self.eval_seq(node.elts, fr))

    def eval_seq(self, elts, fr):
        out = []
        for e in elts:
            if isinstance(e, ast.Starred):
                out.extend(self.iterate(self.eval(e.value, fr)))
            else:
                out.append(self.eval(e, fr))
        return out

    def e_Dict(self, node, fr):
        d = {}
        for k, v in zip(node.keys, node.values):
            if k is None:
                d.update(self.eval(v, fr))
            else:
                d[self.eval(k, fr)] = self.eval(v, fr)
        return d

    def e_Attribute(self, node, fr):
        obj = self.eval(node.value, fr)
        return self.getattr(obj, self.mangle(node.attr, fr))

    def getattr(self, obj, name):
        from . import models
        if isinstance(obj, Sym):
            return models.sym_getattr(self, obj, name)
        if hasattr(type(obj), '_pyvc_getattr'):
            return obj._pyvc_getattr(self, name)
        try:
            return getattr(obj, name)
        except SymLeak:
            raise
        except AttributeError as e:
            if getattr(type(obj), "_pyvc_model", False):
                # a gap of the ghost model is not behaviour of the code under verification
                raise Unsupported(f"the model {type(obj).__name__} of the environment has no attribute '{name}'")
            raise PyRaise(e)
        except Exception as e:
            raise PyRaise(e)

    def e_Subscript(self, node, fr):
        obj = self.eval(node.value, fr)
        if isinstance(node.slice, ast.Slice):
            lo = self.eval(node.slice.lower, fr) if node.slice.lower is not None else None
            hi = self.eval(node.slice.upper, fr) if node.slice.upper is not None else None
            st = self.eval(node.slice.step, fr) if node.slice.step is not None else None
            return self.getslice(obj, lo, hi, st)
        idx = self.eval(node.slice, fr)
        return self.getitem(obj, idx)

    def getslice(self, obj, lo, hi, st):
        if st is not None and not (isinstance(st, int) and st == 1):
            if is_sym(obj) or is_sym(lo) or is_sym(hi) or is_sym(st):
                raise Unsupported("extended slice on symbolic value")
            return obj[lo:hi:st]
        if isinstance(obj, (bytes, bytearray)) and (is_sym(lo) or is_sym(hi)):
            obj = SBytes.of(obj)
        if isinstance(obj, SBytes):
            return obj.slice(self, lo, hi)
        if isinstance(obj, SStr):
            return self.fresh_str("substr")
        if is_sym(lo) or is_sym(hi) or is_sym(obj):
            raise Unsupported(f"slice of {type(obj).__name__} with symbolic bounds")
        try:
            return obj[lo:hi]
        except Exception as e:
            raise PyRaise(e)

    def getitem(self, obj, idx):
        from . import models
        if isinstance(obj, SBytes):
            if not is_intlike(idx):
                raise Unsupported("bytes index of non-int")
            return obj.getitem(self, idx)
        if isinstance(obj, (bytes, bytearray)) and isinstance(idx, (SInt, SBool)):
            return SBytes.of(obj).getitem(self, idx)
        if isinstance(obj, (tuple, list)) and isinstance(idx, (SInt, SBool)):
            return models.seq_index_sym(self, obj, idx)
        if isinstance(obj, SStr):
            if isinstance(idx, int) and obj.length is not None:
                ln = iterm(obj.length)
                ok = (ln > idx) if idx >= 0 else (ln >= -idx)
                if not self.known(ok):
                    if self.branch(z3.Not(ok), tag="IndexError"):
                        self.raise_builtin(IndexError, "string index out of range")
            r = self.fresh_str("char")
            self.fact(iterm(r.length) == 1)
            return r
        if isinstance(obj, dict) and is_sym(idx):
            return models.dict_getitem_sym(self, obj, idx)
        if isinstance(obj, dict) and _symkeyed(obj, idx):
            k = self.dict_find_key(obj, idx)
            if k is _MISSING:
                raise PyRaise(KeyError(idx))
            return obj[k]
        if hasattr(type(obj), '_pyvc_getitem'):
            return obj._pyvc_getitem(self, idx)
        if is_sym(obj) or is_sym(idx):
            raise Unsupported(f"subscript {type(obj).__name__}[{type(idx).__name__}]")
        try:
            return obj[idx]
        except Exception as e:
            raise PyRaise(e)

    def e_UnaryOp(self, node, fr):
        v = self.eval(node.operand, fr)
        if isinstance(node.op, ast.Not):
            t = self.truth_value(v)
            if isinstance(t, bool):
                return not t
            return mk_bool(z3.Not(t.t))
        if isinstance(node.op, ast.USub):
            if isinstance(v, (SInt, SBool)):
                return mk_int(-iterm(v))
            if isinstance(v, SFloat):
                return SFloat(F_NEG(v.t))
            if is_sym(v):
                raise Unsupported("unary minus")
            return -v
        if isinstance(node.op, ast.UAdd):
            return v
        if isinstance(node.op, ast.Invert):
            if isinstance(v, (SInt, SBool)):
                return mk_int(-iterm(v) - 1)
            return ~v
        raise Unsupported("unary op")

    @staticmethod
    def _pure_operand(n):
        if isinstance(n, ast.Constant):
            return True
        if isinstance(n, ast.Name):
            return True
        if isinstance(n, ast.Attribute):
            return isinstance(n.value, ast.Name) or (isinstance(n.value, ast.Attribute) and Exec._pure_operand(n.value))
        if isinstance(n, ast.UnaryOp) and isinstance(n.op, (ast.USub, ast.UAdd)):
            return Exec._pure_operand(n.operand)
        if isinstance(n, ast.BinOp) and isinstance(n.op, (ast.Add, ast.Sub, ast.Mult)):
            return Exec._pure_operand(n.left) and Exec._pure_operand(n.right)
        if isinstance(n, ast.Tuple):
            return all(Exec._pure_operand(e) for e in n.elts)
        return False

    @staticmethod
    def _pure_cond(n):
        """condition built only from comparisons of names / attributes / constants: evaluating all of it can neither
        raise nor have an effect, so short-circuit order is unobservable and the whole thing is one boolean term"""
        if isinstance(n, ast.BoolOp):
            return all(Exec._pure_cond(v) for v in n.values)
        if isinstance(n, ast.UnaryOp) and isinstance(n.op, ast.Not):
            return Exec._pure_cond(n.operand)
        if isinstance(n, ast.Compare):
            return (all(isinstance(o, (ast.Eq, ast.NotEq, ast.Lt, ast.LtE, ast.Gt, ast.GtE, ast.In, ast.NotIn))
                        for o in n.ops)
                    and Exec._pure_operand(n.left) and all(Exec._pure_operand(c) for c in n.comparators))
        return False

    def e_BoolOp(self, node, fr):
        is_and = isinstance(node.op, ast.And)
        if not self.spec_mode and self._pure_cond(node):
            vals = [self.eval(v, fr) for v in node.values]
            if all(isinstance(v, (bool, SBool)) for v in vals) and any(isinstance(v, SBool) for v in vals):
                terms = [bterm(v) for v in vals]
                return mk_bool(z3.And(*terms) if is_and else z3.Or(*terms))
            # fall through to the ordinary evaluation on the already computed values is not possible: re-evaluate
        if self.spec_mode:
            terms = []
            for sub in node.values:
                v = self.eval(sub, fr)
                t = self.truth_value(v)
                if isinstance(t, bool):
                    if is_and and not t:
                        return False
                    if not is_and and t:
                        return True
                    continue
                terms.append(t.t)
            if not terms:
                return is_and
            return mk_bool(z3.And(*terms) if is_and else z3.Or(*terms))
        v = None
        for i, sub in enumerate(node.values):
            v = self.eval(sub, fr)
            if i == len(node.values) - 1:
                return v
            t = self.truth(v, tag="boolop")
            if is_and and not t:
                return v
            if not is_and and t:
                return v
        return v

    @staticmethod
    def _simple_pure(node):
        if isinstance(node, ast.Constant):
            return True
        if isinstance(node, ast.UnaryOp) and isinstance(node.op, ast.USub) and isinstance(node.operand, ast.Constant):
            return True
        return False

    def e_IfExp(self, node, fr):
        c = self.eval(node.test, fr)
        t = self.truth_value(c)
        if isinstance(t, bool):
            return self.eval(node.body if t else node.orelse, fr)
        if self.spec_mode:
            if self.known(t.t):
                return self.eval(node.body, fr)
            if self.known(z3.Not(t.t)):
                return self.eval(node.orelse, fr)
        if self.spec_mode or (self._simple_pure(node.body) and self._simple_pure(node.orelse)):
            a = self.eval(node.body, fr)
            b = self.eval(node.orelse, fr)
            return self.ite(t, a, b)
        if self.branch(t.t, tag="ifexp"):
            return self.eval(node.body, fr)
        return self.eval(node.orelse, fr)

    def ite(self, c, a, b):
        if isinstance(c, bool):
            return a if c else b
        if self.bv_mode and is_intlike(a) and is_intlike(b):
            return SInt(z3.If(c.t, self.bvterm(a), self.bvterm(b)))
        if is_intlike(a) and is_intlike(b) and not (isinstance(a, (bool, SBool)) and isinstance(b, (bool, SBool))):
            return mk_int(z3.If(c.t, iterm(a), iterm(b)))
        if isinstance(a, (bool, SBool)) and isinstance(b, (bool, SBool)):
            return mk_bool(z3.If(c.t, bterm(a), bterm(b)))
        if isinstance(a, (SFloat, float, int, SInt)) and isinstance(b, (SFloat, float, int, SInt)) \
                and not isinstance(a, bool) and not isinstance(b, bool):
            return SFloat(z3.If(c.t, fterm(a), fterm(b)))
        if a is b:
            return a
        raise Unsupported(f"if-expression merging {type(a).__name__} and {type(b).__name__}")

    def e_Compare(self, node, fr):
        left = self.eval(node.left, fr)
        result = True
        for op, rn in zip(node.ops, node.comparators):
            right = self.eval(rn, fr)
            r = self.compare(op, left, right)
            if isinstance(r, bool):
                if not r:
                    return False
            else:
                if isinstance(result, bool):
                    result = r
                else:
                    result = mk_bool(z3.And(result.t, r.t))
            left = right
        return result

    def compare(self, op, a, b):
        from . import models
        if isinstance(op, (ast.Is, ast.IsNot)):
            # a symbolic bool stands for one of the singletons True / False
            sb, other = (a, b) if isinstance(a, SBool) else ((b, a) if isinstance(b, SBool) else (None, None))
            if sb is not None and isinstance(other, bool):
                t = sb.t if other else z3.Not(sb.t)
                return mk_bool(t if isinstance(op, ast.Is) else z3.Not(t))
            if sb is not None and isinstance(other, SBool):
                t = sb.t == other.t
                return mk_bool(t if isinstance(op, ast.Is) else z3.Not(t))
            return (a is b) if isinstance(op, ast.Is) else (a is not b)
        if isinstance(op, ast.In):
            return models.contains(self, b, a)
        if isinstance(op, ast.NotIn):
            r = models.contains(self, b, a)
            return (not r) if isinstance(r, bool) else mk_bool(z3.Not(r.t))
        a, b = self.lower(a), self.lower(b)
        if isinstance(a, (tuple, list)) and isinstance(b, (tuple, list)) and (_has_sym(a) or _has_sym(b)):
            # sequences with symbolic members: element-wise (python's own == would compare the wrappers by identity)
            if not isinstance(op, (ast.Eq, ast.NotEq)):
                raise Unsupported("ordering comparison of sequences with symbolic members")
            if type(a) is not type(b) or len(a) != len(b):
                return isinstance(op, ast.NotEq)
            conj = []
            for x, y in zip(a, b):
                r = self.compare(ast.Eq(), x, y)
                if isinstance(r, bool):
                    if not r:
                        return isinstance(op, ast.NotEq)
                else:
                    conj.append(r.t)
            if not conj:
                return isinstance(op, ast.Eq)
            t = z3.And(*conj)
            return mk_bool(t if isinstance(op, ast.Eq) else z3.Not(t))
        if not is_sym(a) and not is_sym(b):
            try:
                return _CMPOPS[type(op)](a, b)
            except SymLeak:
                raise
            except Exception as e:
                raise PyRaise(e)
        return models.compare_sym(self, op, a, b)

    def bvterm(self, v, w=32):
        if isinstance(v, SInt):
            if z3.is_bv(v.t):
                return v.t
            raise Unsupported("Int term in bit-vector mode")
        if isinstance(v, bool):
            v = int(v)
        if isinstance(v, int):
            if v < 0 or v >= 2 ** w:
                raise Unsupported("constant outside bit-vector range")
            return z3.BitVecVal(v, w)
        raise Unsupported(f"bit-vector term of {type(v).__name__}")

    def e_BinOp(self, node, fr):
        a = self.eval(node.left, fr)
        b = self.eval(node.right, fr)
        return self.binop(type(node.op), a, b)

    @staticmethod
    def lower(v):
        """constant symbolic integers / booleans back to python values"""
        if isinstance(v, SInt) and z3.is_int_value(v.t):
            return v.t.as_long()
        if isinstance(v, SBool):
            if z3.is_true(v.t):
                return True
            if z3.is_false(v.t):
                return False
        return v

    def binop(self, op, a, b):
        from . import models
        a, b = self.lower(a), self.lower(b)
        if not is_sym(a) and not is_sym(b):
            try:
                return _BINOPS[op](a, b)
            except SymLeak:
                raise
            except Exception as e:
                raise PyRaise(e)
        return models.binop_sym(self, op, a, b)

    def e_Lambda(self, node, fr):
        return self.make_closure(node, fr)

    def make_closure(self, node, fr):
        info = None
        filename = fr.info.filename if fr.info is not None else None
        if isinstance(node, ast.Lambda):
            for c in self.world.lambdas.get((filename, node.lineno), []):
                if c.node is node:
                    info = c
        else:
            for fi in self.world.funcs.values():
                if fi.node is node:
                    info = fi
                    break
        if info is None:
            from .world import FuncInfo
            info = FuncInfo(node, fr.info.modname if fr.info else "?", "<lambda>", fr.info.clsname if fr.info else None,
                            filename)
        a = node.args
        defaults = [self.eval(d, fr) for d in a.defaults]
        kwdefaults = {k.arg: self.eval(d, fr) for k, d in zip(a.kwonlyargs, a.kw_defaults) if d is not None}
        return Closure(info, fr.env, fr.globs, defaults, kwdefaults, fr.cls, self.world)

    def e_JoinedStr(self, node, fr):
        from . import models
        parts = []
        for v in node.values:
            if isinstance(v, ast.Constant):
                parts.append(v.value)
            else:
                val = self.eval(v.value, fr)
                spec = None
                if v.format_spec is not None:
                    spec = self.eval(v.format_spec, fr)
                    if not isinstance(spec, str):
                        raise Unsupported("dynamic format spec")
                parts.append(models.format_value(self, val, spec, v.conversion))
        return models.join_str_parts(self, parts)

    def e_ListComp(self, node, fr):
        return list(self._comp(node, fr))

    def e_SetComp(self, node, fr):
        return set(self._comp(node, fr))

    def e_GeneratorExp(self, node, fr):
        if len(node.generators) == 1 and not node.generators[0].ifs:
            g = node.generators[0]
            it = self.eval(g.iter, fr)
            if isinstance(it, SBytes) and not isinstance(it.length(), int):
                # generator over a byte string of symbolic length: one generic element at a fresh index
                from .models import SymComp
                j = self.fresh_int("_j")
                env = Env(fr.env)
                f2 = Frame(env, fr.globs, fr.cls, fr.info, fr.selfobj)
                self.assign(g.target, it.elem_at(self, j.t), f2)
                return SymComp(j, it.blen(), self.eval(node.elt, f2))
            return [self.eval(node.elt, Frame(e, fr.globs, fr.cls, fr.info, fr.selfobj))
                    for e in self._comp_envs_with(g, it, fr)]
        return list(self._comp(node, fr))      # evaluated eagerly (only used under any/all/tuple/join/dict)

    def _comp_envs_with(self, g, it, fr):
        for item in self.iterate(it):
            e2 = Env(fr.env)
            self.assign(g.target, item, Frame(e2, fr.globs, fr.cls, fr.info, fr.selfobj))
            yield e2

    def e_DictComp(self, node, fr):
        out = {}
        for env in self._comp_envs(node.generators, fr):
            f2 = Frame(env, fr.globs, fr.cls, fr.info, fr.selfobj)
            out[self.eval(node.key, f2)] = self.eval(node.value, f2)
        return out

    def _comp(self, node, fr):
        out = []
        for env in self._comp_envs(node.generators, fr):
            f2 = Frame(env, fr.globs, fr.cls, fr.info, fr.selfobj)
            out.append(self.eval(node.elt, f2))
        return out

    def _comp_envs(self, gens, fr):
        def rec(i, env):
            if i == len(gens):
                yield env
                return
            g = gens[i]
            f2 = Frame(env, fr.globs, fr.cls, fr.info, fr.selfobj)
            it = self.eval(g.iter, f2)
            for item in self.iterate(it):
                e2 = Env(env)
                f3 = Frame(e2, fr.globs, fr.cls, fr.info, fr.selfobj)
                self.assign(g.target, item, f3)
                ok = True
                for cond in g.ifs:
                    if not self.truth(self.eval(cond, f3), tag="comp.if"):
                        ok = False
                        break
                if ok:
                    yield from rec(i + 1, e2)
        yield from rec(0, Env(fr.env))

    def iterate(self, it):
        """python iteration over a value whose length is concrete"""
        if isinstance(it, SBytes):
            return it.elems(self)
        if isinstance(it, Sym):
            raise Unsupported(f"iteration over symbolic {type(it).__name__}")
        if hasattr(type(it), '_pyvc_iter'):
            return it._pyvc_iter(self)
        if hasattr(it, "__next__") and self._is_module_level(it):
            # a one-shot iterator stored in a module or class: consuming it changes the behaviour of every later call in
            # the process, and the executor cannot restore it between paths
            raise Unsupported("iteration consumes a one-shot iterator kept in a module or class attribute "
                              f"({type(it).__name__}): behaviour depends on the call history of the process")
        try:
            return list(it)
        except SymLeak:
            raise
        except Exception as e:
            raise PyRaise(e)

    def _is_module_level(self, obj):
        for modname, mod in self.world.modules.items():
            if not modname.startswith("goodwe"):
                continue
            for v in vars(mod).values():
                if v is obj:
                    return True
                if isinstance(v, type) and getattr(v, "__module__", "").startswith("goodwe"):
                    if any(x is obj for x in vars(v).values()):
                        return True
        return False

    def e_Await(self, node, fr):
        from . import aio
        v = self.eval(node.value, fr)
        return aio.await_value(self, v)

    def e_Call(self, node, fr):
        # super() zero-argument form
        if isinstance(node.func, ast.Name) and node.func.id == "super" and not node.args:
            if fr.cls is None or fr.selfobj is None:
                raise Unsupported("super() outside a method")
            return super(fr.cls, fr.selfobj)
        fn = self.eval(node.func, fr)
        args = []
        for a in node.args:
            if isinstance(a, ast.Starred):
                args.extend(self.iterate(self.eval(a.value, fr)))
            else:
                args.append(self.eval(a, fr))
        kw = {}
        for k in node.keywords:
            if k.arg is None:
                kw.update(self.eval(k.value, fr))
            else:
                kw[k.arg] = self.eval(k.value, fr)
        return self.call(fn, args, kw, node=node)

    def e_NamedExpr(self, node, fr):
        v = self.eval(node.value, fr)
        self.assign(node.target, v, fr)
        return v

    # ---- calls ---------------------------------------------------------------------------------------------------
    def call(self, fn, args, kw, node=None):
        from . import models
        self.depth += 1
        if self.depth > 60:
            raise Unsupported("call depth exceeded")
        try:
            return models.dispatch_call(self, fn, args, kw)
        finally:
            self.depth -= 1

    def bind_args(self, argspec, defaults, kwdefaults, args, kw, name="?"):
        """python argument binding; returns dict"""
        a = argspec
        params = [p.arg for p in a.posonlyargs] + [p.arg for p in a.args]
        bound = {}
        args = list(args)
        kw = dict(kw)
        if len(args) > len(params) and a.vararg is None:
            raise PyRaise(TypeError(f"{name}() takes {len(params)} positional arguments but {len(args)} were given"))
        for p, v in zip(params, args):
            bound[p] = v
        if a.vararg is not None:
            bound[a.vararg.arg] = tuple(args[len(params):])
        ndef = len(defaults)
        for i, p in enumerate(params):
            if p in bound:
                if p in kw:
                    raise PyRaise(TypeError(f"{name}() got multiple values for argument '{p}'"))
                continue
            if p in kw:
                bound[p] = kw.pop(p)
            else:
                j = i - (len(params) - ndef)
                if j >= 0:
                    bound[p] = defaults[j]
                else:
                    raise PyRaise(TypeError(f"{name}() missing required positional argument: '{p}'"))
        for p in a.kwonlyargs:
            if p.arg in kw:
                bound[p.arg] = kw.pop(p.arg)
            elif p.arg in kwdefaults:
                bound[p.arg] = kwdefaults[p.arg]
            else:
                raise PyRaise(TypeError(f"{name}() missing keyword-only argument '{p.arg}'"))
        if a.kwarg is not None:
            bound[a.kwarg.arg] = kw
        elif kw:
            raise PyRaise(TypeError(f"{name}() got an unexpected keyword argument '{next(iter(kw))}'"))
        return bound

    def run_function(self, info, bound, globs, cls, closure_env=None, selfobj=None):
        """interpret the body of a function (sync part; coroutines are driven by aio)"""
        env = Env(closure_env)
        env.vars.update(bound)
        fr = Frame(env, globs, cls, info, selfobj)
        self.frames.append(fr)
        try:
            if isinstance(info.node, ast.Lambda):
                return self.eval(info.node.body, fr)
            try:
                self.exec_block(info.node.body, fr)
            except ReturnSig as r:
                return r.value
            return None
        finally:
            self.frames.pop()

    # ---- statements ------------------------------------------------------------------------------------------------
    def exec_block(self, stmts, fr):
        for s in stmts:
            self.exec(s, fr)

    def exec(self, node, fr):
        m = getattr(self, "s_" + type(node).__name__, None)
        if m is None:
            raise Unsupported(f"statement {type(node).__name__} at line {getattr(node, 'lineno', '?')}")
        return m(node, fr)

    def s_Expr(self, node, fr):
        if isinstance(node.value, ast.Constant):
            return
        self.eval(node.value, fr)

    def s_Pass(self, node, fr):
        pass

    def s_Global(self, node, fr):
        self._frame_globals(fr).update(node.names)

    def _frame_globals(self, fr):
        g = fr.env.vars.get('@globals')
        if g is None:
            g = set()
            fr.env.vars['@globals'] = g
        return g

    def s_Return(self, node, fr):
        raise ReturnSig(self.eval(node.value, fr) if node.value is not None else None)

    def s_Assign(self, node, fr):
        v = self.eval(node.value, fr)
        for t in node.targets:
            self.assign(t, v, fr)

    def s_AnnAssign(self, node, fr):
        if node.value is not None:
            self.assign(node.target, self.eval(node.value, fr), fr)

    def s_AugAssign(self, node, fr):
        t = node.target
        if isinstance(t, ast.Name):
            cur = self.lookup(t.id, fr)
            self.assign(t, self.binop(type(node.op), cur, self.eval(node.value, fr)), fr)
        elif isinstance(t, ast.Attribute):
            obj = self.eval(t.value, fr)
            name = self.mangle(t.attr, fr)
            cur = self.getattr(obj, name)
            self.setattr(obj, name, self.binop(type(node.op), cur, self.eval(node.value, fr)))
        elif isinstance(t, ast.Subscript):
            obj = self.eval(t.value, fr)
            idx = self.eval(t.slice, fr)
            cur = self.getitem(obj, idx)
            self.setitem(obj, idx, self.binop(type(node.op), cur, self.eval(node.value, fr)))
        else:
            raise Unsupported("augmented assignment target")

    def assign(self, target, value, fr):
        if isinstance(target, ast.Name):
            g = fr.env.vars.get('@globals')
            if g and target.id in g:
                self.glob_overlay[(id(fr.globs), target.id)] = value
                self.writes.append((fr.globs.get('__name__', '?'), target.id))
            else:
                fr.env.vars[target.id] = value
        elif isinstance(target, ast.Attribute):
            obj = self.eval(target.value, fr)
            self.setattr(obj, self.mangle(target.attr, fr), value)
        elif isinstance(target, ast.Subscript):
            obj = self.eval(target.value, fr)
            if isinstance(target.slice, ast.Slice):
                raise Unsupported("slice assignment")
            self.setitem(obj, self.eval(target.slice, fr), value)
        elif isinstance(target, (ast.Tuple, ast.List)):
            items = self.iterate(value) if not isinstance(value, (tuple, list)) else list(value)
            if len(items) != len(target.elts):
                raise PyRaise(ValueError("unpack length mismatch"))
            for t, v in zip(target.elts, items):
                self.assign(t, v, fr)
        else:
            raise Unsupported(f"assignment target {type(target).__name__}")

    def setitem(self, obj, idx, value):
        if isinstance(obj, SBytes):
            return obj.setitem(self, idx, value)
        if isinstance(obj, bytearray) and (is_sym(value) or is_sym(idx)):
            raise Unsupported("store of symbolic value into a concrete bytearray (should have been lifted)")
        if hasattr(type(obj), '_pyvc_setitem'):
            return obj._pyvc_setitem(self, idx, value)
        if is_sym(idx):
            raise Unsupported("store at symbolic index")
        if isinstance(obj, dict) and _symkeyed(obj, idx):
            # key with symbolic members (e.g. a tuple): python would hash the wrapper objects by identity.  Find the
            # existing key it may be equal to (forking), else it is a new key
            k = self.dict_find_key(obj, idx)
            if k is not _MISSING:
                idx = k
        if isinstance(obj, (dict, list)) and not self.is_fresh(obj):
            self.writes.append((obj, ('item', idx)))
            if isinstance(obj, dict):
                had = idx in obj
                old = obj.get(idx)
                self.undo_container(obj, idx, had, old)
        try:
            obj[idx] = value
        except SymLeak:
            raise
        except Exception as e:
            raise PyRaise(e)

    def dict_find_key(self, d, key):
        """the key of d that equals `key` (which has symbolic members), deciding equality element-wise and forking
        where it is open; _MISSING if none"""
        for k in list(d):
            if k is key:
                return k
            if not isinstance(k, (tuple, list)):
                continue
            r = self.compare(ast.Eq(), k, key)
            if isinstance(r, bool):
                if r:
                    return k
                continue
            if self.branch(r.t, tag="dict.key.equal"):
                return k
        return _MISSING

    def undo_container(self, obj, key, had, old):
        self.undo.append((_ItemUndo(obj, key), None, had, old))

    def undo_container_snapshot(self, obj):
        """restore a pre-existing container that native code is about to mutate"""
        self.undo.append((_SnapUndo(obj, obj.copy()), "restore", True, None))

    @staticmethod
    def _append_only(stmts, temps=None):
        """the statements only append to lists (possibly under nested ifs), apart from assignments to plain local
        names, which are collected in `temps` (the caller checks that they are not used outside the if)"""
        for st in stmts:
            if isinstance(st, ast.If):
                if st.orelse or not Exec._append_only(st.body, temps):
                    return False
                continue
            if (temps is not None and isinstance(st, ast.Assign) and len(st.targets) == 1
                    and isinstance(st.targets[0], ast.Name)):
                temps.add(st.targets[0].id)
                continue
            if not (isinstance(st, ast.Expr) and isinstance(st.value, ast.Call)
                    and isinstance(st.value.func, ast.Attribute) and st.value.func.attr == "append"
                    and isinstance(st.value.func.value, ast.Name) and len(st.value.args) == 1
                    and not st.value.keywords):
                return False
        return bool(stmts)

    @staticmethod
    def _temps_local_to(node, temps, fr):
        """every name in `temps` occurs only inside `node` within the enclosing function (so its value is dead after
        the if and nothing before the if flows into it)"""
        if not temps:
            return True
        if fr.info is None or isinstance(fr.info.node, ast.Lambda):
            return False
        inside = {id(n) for n in ast.walk(node)}
        for n in ast.walk(fr.info.node):
            if id(n) in inside:
                continue
            if isinstance(n, ast.Name) and n.id in temps:
                return False
            if isinstance(n, ast.arg) and n.arg in temps:
                return False
            if isinstance(n, (ast.Global, ast.Nonlocal)) and set(n.names) & temps:
                return False
        return True

    def _guarded_appends(self, stmts, guard, fr):
        from .models import Guarded
        for st in stmts:
            try:
                if isinstance(st, ast.If):
                    t = self.truth_value(self.eval(st.test, fr))
                    if isinstance(t, bool):
                        if t:
                            self._guarded_appends(st.body, guard, fr)
                        continue
                    self._guarded_appends(st.body, z3.And(guard, t.t), fr)
                elif isinstance(st, ast.Assign):
                    self.assign(st.targets[0], self.eval(st.value, fr), fr)
                else:
                    lst = self.lookup(st.value.func.value.id, fr)
                    if not isinstance(lst, list):
                        raise Unsupported("guarded append to a non-list")
                    lst.append(Guarded(z3.simplify(guard), self.eval(st.value.args[0], fr)))
            except PyRaise:
                # the statement is only executed when the guard holds: the exception is real on those paths; where
                # the guard is false the rest of this block is skipped (what was appended so far carries the guard)
                if self.branch(guard, tag=f"ifconv.raise@{st.lineno}"):
                    raise
                return

    def s_If(self, node, fr):
        c = self.eval(node.test, fr)
        temps = set()
        if not node.orelse and self._append_only(node.body, temps) and self._temps_local_to(node, temps, fr):
            t = self.truth_value(c)
            if not isinstance(t, bool):
                # if-conversion: the body only appends to lists (and sets temporaries that are dead after the if), so
                # no fork is needed
                self._guarded_appends(node.body, t.t, fr)
                for name in temps:
                    fr.env.vars.pop(name, None)
                return
        if self.truth(c, tag=f"if@{node.lineno}"):
            self.exec_block(node.body, fr)
        else:
            self.exec_block(node.orelse, fr)

    def s_Raise(self, node, fr):
        if node.exc is None:
            cur = fr.env.vars.get('@handling')
            if cur is None:
                raise PyRaise(RuntimeError("No active exception to reraise"))
            raise PyRaise(cur)
        e = self.eval(node.exc, fr)
        if isinstance(e, type) and issubclass(e, BaseException):
            e = self.call(e, [], {})
        if node.cause is not None:
            self.eval(node.cause, fr)
        if not isinstance(e, BaseException):
            raise PyRaise(TypeError("exceptions must derive from BaseException"))
        raise PyRaise(e)

    def s_Try(self, node, fr):
        pending = None
        try:
            self._try_core(node, fr)
        except (PyRaise, ReturnSig, BreakSig, ContinueSig) as sig:
            pending = sig
        # Unsupported / Infeasible / PathEnd abort the path and are not python-level control flow
        if node.finalbody:
            self.exec_block(node.finalbody, fr)
        if pending is not None:
            raise pending

    def _try_core(self, node, fr):
        try:
            self.exec_block(node.body, fr)
        except PyRaise as pr:
            for h in node.handlers:
                if self.exc_matches(pr.exc, h, fr):
                    if h.name:
                        fr.env.vars[h.name] = pr.exc
                    prev = fr.env.vars.get('@handling')
                    fr.env.vars['@handling'] = pr.exc
                    try:
                        self.exec_block(h.body, fr)
                    finally:
                        fr.env.vars['@handling'] = prev
                        if h.name:
                            fr.env.vars.pop(h.name, None)
                    return
            raise
        else:
            self.exec_block(node.orelse, fr)

    def exc_matches(self, exc, handler, fr):
        if handler.type is None:
            return True
        t = self.eval(handler.type, fr)
        try:
            return isinstance(exc, t)
        except TypeError as e:
            raise PyRaise(e)

    def s_Break(self, node, fr):
        raise BreakSig()

    def s_Continue(self, node, fr):
        raise ContinueSig()

    def s_Assert(self, node, fr):
        c = self.eval(node.test, fr)
        if not self.truth(c, tag="assert"):
            raise PyRaise(AssertionError())

    def s_Delete(self, node, fr):
        raise Unsupported("del")

    def s_FunctionDef(self, node, fr):
        fr.env.vars[node.name] = self.make_closure(node, fr)

    def s_Import(self, node, fr):
        for a in node.names:
            import importlib
            mod = importlib.import_module(a.name)
            fr.env.vars[(a.asname or a.name).split(".")[0]] = mod if a.asname else importlib.import_module(
                a.name.split(".")[0])

    def s_ImportFrom(self, node, fr):
        import importlib
        name = node.module or ""
        if node.level:
            pkg = (fr.globs.get("__package__") or fr.globs.get("__name__", "")).split(".")
            base = pkg[:len(pkg) - (node.level - 1)] if node.level > 1 else pkg
            name = ".".join(base + ([name] if name else []))
        mod = importlib.import_module(name)
        for a in node.names:
            fr.env.vars[a.asname or a.name] = getattr(mod, a.name)

    def s_For(self, node, fr):
        from . import loops
        it = self.eval(node.iter, fr)
        if isinstance(it, SBytes) and not isinstance(it.length(), int):
            return loops.symbolic_for(self, node, it, fr)
        items = self.iterate(it)
        # iteration over a dict (view): python raises RuntimeError at the next step when the size changed meanwhile
        sized = it if type(it).__name__ in ("dict", "dict_items", "dict_keys", "dict_values") else None
        n0 = len(sized) if sized is not None else None
        if self.verify_key is not None and fr.info is not None and fr.info.key == self.verify_key:
            c = self.contracts.get(self.verify_key)
            if c is not None:
                ordinal = loops.loops_in_source_order(fr.info.node).index(node)
                if "state" in c.loops.get(ordinal, {}):
                    return loops.concrete_for(self, node, items, fr, c.loops[ordinal], ordinal, sized=sized)
        broke = False
        for item in items:
            self.assign(node.target, item, fr)
            try:
                self.exec_block(node.body, fr)
            except BreakSig:
                broke = True
                break
            except ContinueSig:
                pass
            if sized is not None and len(sized) != n0:
                raise PyRaise(RuntimeError("dictionary changed size during iteration"))
        if not broke:
            self.exec_block(node.orelse, fr)

    def s_While(self, node, fr):
        # only loops whose condition is decided concretely at every iteration (bounded by the budget)
        n = 0
        while True:
            c = self.eval(node.test, fr)
            t = self.truth_value(c)
            if not isinstance(t, bool):
                # symbolic condition: both continuations are explored; sound as long as every path leaves the loop
                # within the cap (otherwise the unit is undecided)
                if self.spec_mode:
                    raise Unsupported("while loop with symbolic condition in a specification")
                t = self.branch(t.t, tag=f"while@{node.lineno}")
            if not t:
                break
            n += 1
            if n > 70:
                raise Unsupported("while loop not finished after 70 iterations (needs an invariant)")
            try:
                self.exec_block(node.body, fr)
            except BreakSig:
                return
            except ContinueSig:
                continue
        self.exec_block(node.orelse, fr)


class _SnapUndo:
    def __init__(self, obj, snap):
        object.__setattr__(self, "obj", obj)
        object.__setattr__(self, "snap", snap)

    def __setattr__(self, name, value):
        o, snap = self.obj, self.snap
        if isinstance(o, dict):
            o.clear()
            o.update(snap)
        elif isinstance(o, list):
            o[:] = snap
        elif isinstance(o, set):
            o.clear()
            o.update(snap)


class _ItemUndo:
    """adapter so that container item stores share the attribute undo log"""

    def __init__(self, obj, key):
        self.obj = obj
        self.key = key

    def __setattr__(self, name, value):
        if name in ('obj', 'key'):
            object.__setattr__(self, name, value)
        else:
            self.obj[self.key] = value

    def __delattr__(self, name):
        self.obj.pop(self.key, None)


# ---- path exploration ---------------------------------------------------------------------------------------------
class PathResult:
    __slots__ = ('trace', 'tags', 'outcome', 'value', 'vcs', 'error', 'pc', 'ex')

    def __init__(self, ex, outcome, value=None, error=None):
        self.trace = list(ex.trace)
        self.tags = list(ex.tags)
        self.outcome = outcome      # 'return' | 'raise' | 'end' | 'infeasible' | 'unsupported'
        self.value = value
        self.vcs = ex.vcs
        self.error = error
        self.ex = ex


def explore(world, body, unit, contracts=None, max_paths=20000, timeout_ms=SOLVER_TIMEOUT_MS, on_path=None,
            setup=None, keep_ex=True):
    """Enumerate all paths of `body(ex)`.  body returns a value or raises PyRaise; it may call ex.check."""
    global _CUR
    work = [[]]
    results = []
    t_start = time.time()
    max_wall = float(os.environ.get("PYVC_UNIT_WALL_S", "900"))
    while work:
        prefix = work.pop()
        if len(results) >= max_paths:
            raise Budget(f"more than {max_paths} paths in {unit}")
        if time.time() - t_start > max_wall:
            raise Budget(f"more than {max_wall:.0f} s spent on {len(results)} paths of {unit} (PYVC_UNIT_WALL_S)")
        ex = Exec(world, prefix, unit, contracts, timeout_ms)
        if setup:
            setup(ex)
        prev = _CUR
        _CUR = ex
        try:
            try:
                v = body(ex)
                res = PathResult(ex, 'return', v)
            except PyRaise as pr:
                res = PathResult(ex, 'raise', pr.exc)
            except PathEnd:
                res = PathResult(ex, 'end')
            except Infeasible:
                res = PathResult(ex, 'infeasible')
            except Unsupported as u:
                res = PathResult(ex, 'unsupported', error=str(u))
            except (ReturnSig, BreakSig, ContinueSig) as s:
                res = PathResult(ex, 'unsupported', error=f"stray control signal {type(s).__name__}")
            if on_path:
                on_path(ex, res)
        finally:
            ex.rollback()
            _CUR = prev
        work.extend(ex.pending)
        if not keep_ex:
            res.ex = None          # the solver and all terms of the path are released right away
            res.vcs = None
            res.value = None
        results.append(res)
    return results
