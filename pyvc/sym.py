"""Symbolic value classes used by the executor (see DESIGN.md section 2.2).

Python ints are modelled by z3 `Int` (unbounded, no machine arithmetic); byte strings by segments over
z3 arrays Int->Int with every element read constrained to 0..255; floats by an uninterpreted sort.
"""
from __future__ import annotations

import z3


class SymLeak(Exception):
    """A symbolic value reached native CPython code that tried to concretise it (verifier error, exit 3)."""


class Unsupported(Exception):
    """Construct outside the supported subset (verdict UNDECIDED for the unit)."""


Flt = z3.DeclareSort('Flt')
StrS = z3.DeclareSort('Str')


class Sym:
    __slots__ = ()

    def __bool__(self):
        raise SymLeak(f"truth value of symbolic {self!r} requested by native code")

    def __index__(self):
        raise SymLeak(f"index of symbolic {self!r} requested by native code")

    def __int__(self):
        raise SymLeak(f"int() of symbolic {self!r} requested by native code")

    def __float__(self):
        raise SymLeak(f"float() of symbolic {self!r} requested by native code")

    def __len__(self):
        raise SymLeak(f"len() of symbolic {self!r} requested by native code")

    def __iter__(self):
        raise SymLeak(f"iter() of symbolic {self!r} requested by native code")

    def __eq__(self, other):
        # python's containers test identity first, so `x in [x]` and dict lookups by the same wrapper never get here;
        # anything else is native code comparing a symbolic value with something: never answer silently
        if other is self:
            return True
        raise SymLeak(f"== on symbolic {self!r} evaluated by native code")

    def __ne__(self, other):
        if other is self:
            return False
        raise SymLeak(f"!= on symbolic {self!r} evaluated by native code")

    __hash__ = object.__hash__


class SInt(Sym):
    __slots__ = ('t',)

    def __init__(self, t):
        self.t = t

    def __repr__(self):
        return f"SInt({self.t})"


class SBool(Sym):
    __slots__ = ('t',)

    def __init__(self, t):
        self.t = t

    def __repr__(self):
        return f"SBool({self.t})"


class SFloat(Sym):
    """Float value as a term of the uninterpreted sort Flt (DESIGN 2.4, assumption A5)."""
    __slots__ = ('t',)

    def __init__(self, t):
        self.t = t

    def __repr__(self):
        return f"SFloat({self.t})"


class SStr(Sym):
    """Opaque string (decoded device strings, log texts). `key` identifies it within a path."""
    __slots__ = ('key', 'length', 'hint')

    def __init__(self, key, length=None, hint=''):
        self.key = key
        self.length = length
        self.hint = hint

    def __repr__(self):
        return f"SStr({self.key})"


class SAny(Sym):
    """Value about which nothing is known (result of an abstracted callee)."""
    __slots__ = ('key',)

    def __init__(self, key):
        self.key = key

    def __repr__(self):
        return f"SAny({self.key})"


# --------------------------------------------------------------------------------------------------
# helpers

def is_sym(v) -> bool:
    return isinstance(v, Sym)


def simp(t):
    return z3.simplify(t)


def mk_int(t):
    """Wrap an integer term; numerals become plain python ints."""
    t = z3.simplify(t)
    if z3.is_int_value(t):
        return t.as_long()
    if z3.is_bv_value(t):
        return SInt(t)
    return SInt(t)


def mk_bool(t):
    t = z3.simplify(t)
    if z3.is_true(t):
        return True
    if z3.is_false(t):
        return False
    return SBool(t)


def is_intlike(v):
    return isinstance(v, (int, SInt, SBool)) and not isinstance(v, float)


def iterm(v):
    """z3 Int term of an int-like value."""
    if isinstance(v, SInt):
        return v.t
    if isinstance(v, bool):
        return z3.IntVal(1 if v else 0)
    if isinstance(v, int):
        return z3.IntVal(v)
    if isinstance(v, SBool):
        return z3.If(v.t, z3.IntVal(1), z3.IntVal(0))
    raise Unsupported(f"integer term of {type(v).__name__}")


def bterm(v):
    if isinstance(v, SBool):
        return v.t
    if isinstance(v, bool):
        return z3.BoolVal(v)
    raise Unsupported(f"boolean term of {type(v).__name__} {v!r}")


def is_bv(v):
    return isinstance(v, SInt) and z3.is_bv(v.t)


# ---- floats -------------------------------------------------------------------------------------
F_OF_INT = z3.Function('f_of_int', z3.IntSort(), Flt)
F_DIV = z3.Function('f_div', Flt, Flt, Flt)
F_MUL = z3.Function('f_mul', Flt, Flt, Flt)
F_ADD = z3.Function('f_add', Flt, Flt, Flt)
F_SUB = z3.Function('f_sub', Flt, Flt, Flt)
F_NEG = z3.Function('f_neg', Flt, Flt)
F_ABS = z3.Function('f_abs', Flt, Flt)
F_ROUND = z3.Function('f_round', Flt, z3.IntSort())          # round(x) -> int
F_ROUNDN = z3.Function('f_roundn', Flt, z3.IntSort(), Flt)   # round(x, n) -> float
F_TRUNC = z3.Function('f_trunc', Flt, z3.IntSort())          # int(x)
F_UNPACK = z3.Function('f_unpack_be32', z3.IntSort(), Flt)    # struct.unpack('>f') of the 32 bit word
F_LT = z3.Function('f_lt', Flt, Flt, z3.BoolSort())
F_LE = z3.Function('f_le', Flt, Flt, z3.BoolSort())
_fconsts = {}


def fterm(v):
    """Flt term of a numeric value."""
    if isinstance(v, SFloat):
        return v.t
    if isinstance(v, float):
        if v == int(v) and abs(v) < 2 ** 53:
            return F_OF_INT(z3.IntVal(int(v)))
        k = repr(v)
        if k not in _fconsts:
            _fconsts[k] = z3.Const('fconst_' + k, Flt)
        return _fconsts[k]
    if is_intlike(v):
        return F_OF_INT(iterm(v))
    raise Unsupported(f"float term of {type(v).__name__}")


# ---- bit operations on unbounded ints (uninterpreted, with range facts added by the executor) ----
B_XOR = z3.Function('b_xor', z3.IntSort(), z3.IntSort(), z3.IntSort())
B_AND = z3.Function('b_and', z3.IntSort(), z3.IntSort(), z3.IntSort())
B_OR = z3.Function('b_or', z3.IntSort(), z3.IntSort(), z3.IntSort())
B_SHL = z3.Function('b_shl', z3.IntSort(), z3.IntSort(), z3.IntSort())

# ---- specification folds -------------------------------------------------------------------------
ArrS = z3.ArraySort(z3.IntSort(), z3.IntSort())
CRCSTEP = z3.Function('CRCSTEP', z3.IntSort(), z3.IntSort(), z3.IntSort())          # one byte
CRCF = z3.Function('CRCF', z3.IntSort(), ArrS, z3.IntSort(), z3.IntSort(), z3.IntSort())  # fold arr[a:b] from c
SUMF = z3.Function('SUMF', ArrS, z3.IntSort(), z3.IntSort(), z3.IntSort())           # sum arr[a:b]
