"""Symbolic byte strings and hex strings (DESIGN 2.2, 2.5)."""
from __future__ import annotations

import z3

from .sym import Sym, SInt, SBool, SStr, Unsupported, iterm, mk_int, mk_bool, is_intlike, simp


def _cx():
    from . import interp
    return interp.current()


def zt(v):
    """int | SInt | z3 term -> z3 term"""
    if isinstance(v, z3.ExprRef):
        return v
    return iterm(v)


def norm(t):
    """z3 term -> python int if numeral else simplified term"""
    if isinstance(t, int):
        return t
    if isinstance(t, SInt):
        t = t.t
    t = z3.simplify(t)
    if z3.is_int_value(t):
        return t.as_long()
    return t


def wrap(t):
    """python int | z3 term -> value"""
    if isinstance(t, int):
        return t
    return mk_int(t)


class ESeg:
    __slots__ = ('elems',)

    def __init__(self, elems):
        self.elems = list(elems)

    def n(self):
        return len(self.elems)


class ASeg:
    __slots__ = ('arr', 'off', 'ln', 'maxn')

    def __init__(self, arr, off, ln, maxn=None):
        self.arr = arr
        self.off = norm(off)
        self.ln = norm(ln)
        self.maxn = maxn if not isinstance(self.ln, int) else self.ln

    def n(self):
        return self.ln


def _merge(segs):
    out = []
    for s in segs:
        if isinstance(s, ESeg):
            if not s.elems:
                continue
            if out and isinstance(out[-1], ESeg):
                out[-1] = ESeg(out[-1].elems + s.elems)
                continue
        else:
            if isinstance(s.ln, int) and s.ln == 0:
                continue
        out.append(s)
    return out


class SBytes(Sym):
    """bytes / bytearray whose content and/or length may be symbolic."""
    __slots__ = ('segs', 'mutable')

    def __init__(self, segs, mutable=False):
        self.segs = _merge(segs)
        self.mutable = mutable

    def __repr__(self):
        parts = []
        for s in self.segs:
            if isinstance(s, ESeg):
                parts.append("[" + ",".join(str(e.t) if isinstance(e, SInt) else str(e) for e in s.elems[:8])
                             + ("..." if len(s.elems) > 8 else "") + "]")
            else:
                parts.append(f"{s.arr}[{s.off}:+{s.ln}]")
        return ("bytearray" if self.mutable else "bytes") + "<" + " ++ ".join(parts) + ">"

    # ---- construction
    @staticmethod
    def of(b, mutable=None):
        if isinstance(b, SBytes):
            return b
        if isinstance(b, (bytes, bytearray)):
            return SBytes([ESeg(list(b))], isinstance(b, bytearray) if mutable is None else mutable)
        raise Unsupported(f"bytes of {type(b).__name__}")

    @staticmethod
    def fresh(ex, name, length=None, mutable=False):
        arr = ex.fresh_arr(name)
        if length is None:
            length = ex.fresh_int(name + "_len")
            ex.fact(iterm(length) >= 0)
        return SBytes([ASeg(arr, 0, zt(length))], mutable)

    def copy(self, mutable):
        return SBytes([ESeg(s.elems) if isinstance(s, ESeg) else ASeg(s.arr, s.off, s.ln, s.maxn) for s in self.segs],
                      mutable)

    # ---- length
    def length(self):
        tot = 0
        for s in self.segs:
            n = s.n()
            if isinstance(tot, int) and isinstance(n, int):
                tot += n
            else:
                tot = zt(tot) + zt(n)
        return norm(tot) if not isinstance(tot, int) else tot

    def blen(self):
        return wrap(self.length())

    def maxlen(self):
        """concrete upper bound of the length, or None"""
        tot = 0
        for s in self.segs:
            if isinstance(s, ESeg):
                tot += s.n()
            elif isinstance(s.ln, int):
                tot += s.ln
            elif s.maxn is not None:
                tot += s.maxn
            else:
                return None
        return tot

    def is_concrete(self):
        return all(isinstance(s, ESeg) and all(isinstance(e, int) for e in s.elems) for s in self.segs)

    def to_bytes(self):
        assert self.is_concrete()
        out = bytearray()
        for s in self.segs:
            out.extend(s.elems)
        return bytearray(out) if self.mutable else bytes(out)

    # ---- element access
    def _sel(self, ex, arr, idx):
        t = z3.simplify(z3.Select(arr, idx))
        ex.byte_fact(t)
        return t

    def elem_at(self, ex, eff):
        """element at effective (already normalised, in range) index; eff int or term"""
        eff = norm(eff)
        if isinstance(eff, int):
            cum = 0
            for s in self.segs:
                n = s.n()
                if not isinstance(n, int):
                    if s is self.segs[-1]:
                        return mk_int(self._sel(ex, s.arr, zt(s.off) + (eff - cum)))
                    break
                if eff < cum + n:
                    if isinstance(s, ESeg):
                        return s.elems[eff - cum]
                    return mk_int(self._sel(ex, s.arr, zt(s.off) + (eff - cum)))
                cum += n
        if len(self.segs) == 1 and isinstance(self.segs[0], ASeg):
            s = self.segs[0]
            return mk_int(self._sel(ex, s.arr, zt(s.off) + zt(eff)))
        # general ite chain, built right to left
        effz = zt(eff)
        pieces = []
        cum = 0
        for s in self.segs:
            n = s.n()
            if isinstance(s, ESeg):
                for j, e in enumerate(s.elems):
                    pieces.append((effz == zt(cum) + j, iterm(e)))
            else:
                pieces.append((z3.And(effz >= zt(cum), effz < zt(cum) + zt(n)),
                               self._sel(ex, s.arr, zt(s.off) + effz - zt(cum))))
            cum = norm(zt(cum) + zt(n)) if not (isinstance(cum, int) and isinstance(n, int)) else cum + n
        if not pieces:
            return 0
        res = pieces[-1][1]
        for c, v in reversed(pieces[:-1]):
            res = z3.If(c, v, res)
        return mk_int(res)

    def getitem(self, ex, idx):
        n = self.length()
        if isinstance(idx, int) and isinstance(n, int):
            if not -n <= idx < n:
                ex.raise_builtin(IndexError, "index out of range")
            return self.elem_at(ex, idx % n if n else idx)
        it, nt = zt(idx), zt(n)
        if isinstance(idx, int):
            eff = it if idx >= 0 else it + nt
        elif ex.known(it >= 0):
            eff = it
        elif ex.known(it < 0):
            eff = it + nt
        else:
            eff = z3.If(it < 0, it + nt, it)
        inr = z3.And(eff >= 0, eff < nt)
        if not ex.spec_mode:
            if not ex.known(inr):
                if ex.branch(z3.Not(inr), tag="IndexError"):
                    ex.raise_builtin(IndexError, "index out of range")
        return self.elem_at(ex, eff)

    def setitem(self, ex, idx, val):
        if not self.mutable:
            ex.raise_builtin(TypeError, "'bytes' object does not support item assignment")
        self._explode(ex)
        n = self.length()
        if not isinstance(idx, int):
            raise Unsupported("bytearray store at symbolic index")
        if not -n <= idx < n:
            ex.raise_builtin(IndexError, "bytearray index out of range")
        ex.check_byte_range(val)
        self.segs[0].elems[idx % n] = val

    def _explode(self, ex):
        n = self.length()
        if not isinstance(n, int):
            raise Unsupported("mutation of a byte string of symbolic length")
        elems = [self.elem_at(ex, i) for i in range(n)]
        self.segs = [ESeg(elems)] if elems else []
        if not self.segs:
            self.segs = [ESeg([])]

    def elems(self, ex):
        n = self.length()
        if not isinstance(n, int):
            raise Unsupported("elements of a byte string of symbolic length")
        return [self.elem_at(ex, i) for i in range(n)]

    def append(self, ex, val):
        ex.check_byte_range(val)
        self.segs = _merge(self.segs + [ESeg([val])])

    def extend(self, ex, other):
        other = SBytes.of(other)
        self.segs = _merge(self.segs + other.copy(False).segs)

    # ---- slicing
    def _clamp(self, ex, v, n, default):
        """python slice bound -> position in [0, n] as int or term"""
        if v is None:
            return default
        if isinstance(v, int) and isinstance(n, int):
            if v < 0:
                v += n
            return min(max(v, 0), n)
        nt = zt(n)
        t = zt(v)
        if isinstance(v, int):
            if v < 0:
                t = t + nt
        elif ex.known(t >= 0):
            pass
        elif ex.known(t < 0):
            t = t + nt
        else:
            t = z3.If(t < 0, t + nt, t)
        if not ex.known(t >= 0):
            t = z3.If(t < 0, z3.IntVal(0), t)
        if not ex.known(t <= nt):
            t = z3.If(t > nt, nt, t)
        return norm(t)

    def slice(self, ex, lo, hi, maxn=None):
        n = self.length()
        start = self._clamp(ex, lo, n, 0)
        stop = self._clamp(ex, hi, n, n)
        if isinstance(start, int) and isinstance(stop, int):
            ln = max(0, stop - start)
        else:
            d = zt(stop) - zt(start)
            ln = norm(d) if ex.known(d >= 0) else norm(z3.If(d >= 0, d, z3.IntVal(0)))
        if maxn is None and isinstance(lo, int) and isinstance(hi, int) and lo >= 0 and hi >= 0:
            maxn = max(0, hi - lo)
        if isinstance(ln, int):
            maxn = ln
        if len(self.segs) == 1 and isinstance(self.segs[0], ASeg):
            s = self.segs[0]
            return SBytes([ASeg(s.arr, zt(s.off) + zt(start), ln, maxn)], False)
        if not self.segs:
            return SBytes([], False)
        out = []
        cum = 0
        for s in self.segs:
            sn = s.n()
            # intersection of [start, stop) with [cum, cum+sn) relative to segment
            if all(isinstance(x, int) for x in (start, stop, cum, sn)):
                a = min(max(start - cum, 0), sn)
                b = min(max(stop - cum, 0), sn)
            else:
                a = zt(start) - zt(cum)
                a = z3.If(a < 0, z3.IntVal(0), z3.If(a > zt(sn), zt(sn), a))
                b = zt(stop) - zt(cum)
                b = z3.If(b < 0, z3.IntVal(0), z3.If(b > zt(sn), zt(sn), b))
                a, b = ex.concretize(a), ex.concretize(b)
            if isinstance(s, ESeg):
                if not (isinstance(a, int) and isinstance(b, int)):
                    raise Unsupported("slice with symbolic bounds across explicit elements")
                if b > a:
                    out.append(ESeg(s.elems[a:b]))
            else:
                if isinstance(a, int) and isinstance(b, int):
                    if b > a:
                        out.append(ASeg(s.arr, zt(s.off) + a, b - a))
                else:
                    d = zt(b) - zt(a)
                    d = norm(d) if ex.known(d >= 0) else norm(z3.If(d >= 0, d, z3.IntVal(0)))
                    out.append(ASeg(s.arr, zt(s.off) + zt(a), d, s.maxn))
            cum = cum + sn if isinstance(cum, int) and isinstance(sn, int) else norm(zt(cum) + zt(sn))
        return SBytes(out, False)

    def concat(self, other):
        other = SBytes.of(other)
        return SBytes(self.copy(False).segs + other.copy(False).segs, self.mutable)

    # ---- conversions
    def from_bytes(self, ex, signed, byteorder="big"):
        """int.from_bytes(self, byteorder, signed=signed) — total for every length (short reads included)"""
        n = self.length()
        if isinstance(n, int):
            return self._from_bytes_n(ex, n, signed, byteorder)
        mx = self.maxlen()
        if mx is None:
            raise Unsupported("int.from_bytes of a byte string without a concrete length bound")
        nt = zt(n)
        if ex.known(nt == mx):
            return self._from_bytes_n(ex, mx, signed, byteorder)
        chain = iterm(self._from_bytes_n(ex, mx, signed, byteorder))
        for k in range(mx - 1, -1, -1):
            chain = z3.If(nt == k, iterm(self._from_bytes_n(ex, k, signed, byteorder)), chain)
        return mk_int(chain)

    def _from_bytes_n(self, ex, k, signed, byteorder):
        if k == 0:
            return 0
        els = [self.elem_at(ex, i) for i in range(k)]
        if byteorder == "little":
            els = els[::-1]
        acc = z3.IntVal(0)
        for e in els:
            acc = acc * 256 + iterm(e)
        if signed:
            acc = z3.If(iterm(els[0]) >= 128, acc - 256 ** k, acc)
        return mk_int(acc)

    def truth(self):
        n = self.length()
        if isinstance(n, int):
            return n > 0
        return mk_bool(zt(n) > 0)


# --------------------------------------------------------------------------------------------------
class HexStr(Sym):
    """A string of hexadecimal digits assembled from literal text, fixed-width formatted integers and
    bytes.hex() (DESIGN 2.5).  parts: ('lit', str) | ('fmt', int-like, width) | ('hex', SBytes) | ('neg',)"""
    __slots__ = ('parts',)

    def __init__(self, parts):
        self.parts = list(parts)

    def __repr__(self):
        return "HexStr(" + " + ".join(
            p[1] if p[0] == 'lit' else (f"{{{p[1]}:0{p[2]}x}}" if p[0] == 'fmt' else p[0]) for p in self.parts) + ")"

    @staticmethod
    def of(v):
        if isinstance(v, HexStr):
            return v
        if isinstance(v, str):
            return HexStr([('lit', v)])
        raise Unsupported(f"hex string of {type(v).__name__}")

    def concat(self, other):
        return HexStr(self.parts + HexStr.of(other).parts)

    def to_bytes(self, ex):
        """bytes.fromhex(self)"""
        segs = []
        pend = ""       # pending literal nibbles
        for p in self.parts:
            if p[0] == 'lit':
                txt = pend + "".join(p[1].split())
                pend = ""
                if len(txt) % 2:
                    pend = txt[-1]
                    txt = txt[:-1]
                try:
                    b = bytes.fromhex(txt)
                except ValueError as e:
                    ex.raise_builtin(ValueError, str(e))
                segs.append(ESeg(list(b)))
            elif p[0] == 'neg':
                ex.raise_builtin(ValueError, "non-hexadecimal number found in fromhex() arg (sign)")
            elif p[0] == 'fmt':
                v = iterm(p[1])
                if not ex.known(v >= 0):
                    if ex.branch(v < 0, tag="hexfield.negative"):
                        ex.raise_builtin(ValueError, "non-hexadecimal number found in fromhex() arg (sign)")
                if not ex.known(v < 16 ** p[2]):
                    if ex.branch(v >= 16 ** p[2], tag="hexfield.too_wide"):
                        raise Unsupported(f"hex field wider than {p[2]} digits (value >= 16**{p[2]})")
                if pend or p[2] % 2:
                    raise Unsupported("hex field not byte aligned")
                v, w = iterm(p[1]), p[2] // 2
                els = []
                for k in range(w - 1, -1, -1):
                    els.append(mk_int((v / z3.IntVal(256 ** k)) % 256))
                segs.append(ESeg(els))
            elif p[0] == 'hex':
                if pend:
                    raise Unsupported("hex of bytes not byte aligned")
                segs.extend(p[1].copy(False).segs)
        if pend:
            ex.raise_builtin(ValueError, "odd-length hex string")
        return SBytes(segs, False)


def format_hex(ex, value, width):
    """format(value, '0{width}x').  The text is exactly `width` hex digits only on 0 <= value < 16**width; the case
    split happens when the text is turned into bytes (HexStr.to_bytes): a negative value yields a sign character,
    on which bytes.fromhex raises ValueError as CPython does; a wider value is outside the model (undecided)."""
    if isinstance(value, int):
        return HexStr([('lit', format(value, f"0{width}x"))])
    return HexStr([('fmt', value, width)])
