"""./check entry point (DESIGN section 6)."""
from __future__ import annotations

import importlib
import json
import os
import re
import subprocess
import sys
import time

VERIF = os.path.dirname(os.path.dirname(os.path.abspath(__file__)))
REPO = os.environ.get("GOODWE_REPO", "/repo")
PROPS = [f"C{i:02d}" for i in range(1, 21)]


def cmd_setup():
    ok = True
    try:
        import z3
        print("z3", z3.get_version_string())
    except Exception as e:      # noqa
        print("z3 python API missing:", e)
        ok = False
    for exe in ("/venv/bin/python", "/usr/bin/cvc5"):
        if not os.path.exists(exe):
            print("missing", exe)
            ok = ok and exe != "/venv/bin/python"
    r = subprocess.run(["/venv/bin/python", "-c", "import sys; sys.path.insert(0, %r); import goodwe; print('goodwe', "
                        "goodwe.__file__)" % REPO], capture_output=True, text=True)
    print(r.stdout.strip() or r.stderr.strip())
    ok = ok and r.returncode == 0
    import compileall
    ok = compileall.compile_dir(os.path.join(VERIF, "pyvc"), quiet=1, legacy=False) and ok
    os.makedirs(os.path.join(VERIF, "evidence"), exist_ok=True)
    os.makedirs(os.path.join(VERIF, "replays"), exist_ok=True)
    print("setup", "ok" if ok else "FAILED")
    return 0 if ok else 3


def load_known():
    p = os.path.join(VERIF, "known_findings.json")
    if not os.path.exists(p):
        return {"findings": [], "fixed": []}
    return json.load(open(p))


def load_baseline():
    p = os.path.join(VERIF, "baseline_obligations.json")
    if not os.path.exists(p):
        return set()
    return set(json.load(open(p)).get("obligations", []))


def sanitize(name):
    return re.sub(r"[^A-Za-z0-9_.#-]+", "_", name)[:150]


def finding_matches(f, prop, vc):
    if f["property"] != prop:
        return False
    if not re.fullmatch(f["obligation"], vc["name"]):
        return False
    wm = f.get("witness_match")
    if wm:
        w = vc.get("witness") or {}
        for k, v in wm.items():
            if w.get(k) != v:
                return False
    return True


def replay_vc(prop, vc, unit, driver):
    """try to reproduce a refuted obligation on the real code; returns (reproduced: bool|None, record)"""
    from . import units, contracts
    rec = {"property": prop, "obligation": vc["name"], "repo": REPO, "solver_model": vc.get("model"),
           "witness": vc.get("witness"), "path": vc.get("path"), "detail": vc.get("detail")}
    if vc.get("reproduced"):
        rec["kind"] = "native"
        rec["native"] = {"module": unit.get("native_module"), "func": unit.get("native_func"),
                         "kwargs": unit.get("native_kwargs")}
        rec["all_failures"] = vc.get("all_failures")
        return True, rec
    ukey = unit["unit"]
    c = contracts.REGISTRY.get(ukey.split("#")[0])
    clause = vc["name"].rsplit("/", 1)[-1]
    if c is not None and "#" not in ukey and vc.get("witness") and (
            clause.endswith("raises_only") or c.clause(clause) is not None):
        w = vc["witness"]
        info = units.get_world().func(c.key)
        argnames = [a.arg for a in info.node.args.args]
        if all(n in w for n in argnames):
            base = {n: w[n] for n in argnames}
            variants = [base]
            if c.repair is not None:
                try:
                    from .native import dec, enc
                    for v in c.repair({k: dec(x) for k, x in base.items()}) or []:
                        variants.append({k: enc(x) for k, x in v.items()})
                except Exception as e:      # noqa
                    rec["repair_error"] = repr(e)
            if c.samples is not None and len(argnames) <= 4:
                # the contract's own sample inputs as further candidates (a search on the real code, e.g. for text
                # the solver model cannot pin down: invalid UTF-16, odd lengths)
                try:
                    from .native import enc
                    for smp in c.samples():
                        if len(smp) == len(argnames):
                            variants.append({n: enc(x) for n, x in zip(argnames, smp)})
                except Exception as e:      # noqa
                    rec["samples_error"] = repr(e)
            extra = {k: x for k, x in w.items() if k not in argnames}
            tasks = [{"op": "clause", "sidecar": c.sidecar, "key": c.key, "clause": clause, "argnames": argnames,
                      "args": [v[n] for n in argnames], "extra": extra} for v in variants]
            rec["kind"] = "clause"
            rec["tasks"] = tasks
            try:
                outs = units.native_batch(tasks)
            except Exception as e:      # noqa
                rec["native_error"] = repr(e)
                return None, rec
            rec["native_results"] = outs
            for t, o in zip(tasks, outs):
                if o["ok"] and o["result"].get("holds") is False:
                    rec["failing_task"] = t
                    rec["failing_result"] = o["result"]
                    return True, rec
            return False, rec
    if c is not None and "#loop" in ukey and c.bv_replay is not None and vc.get("witness"):
        from .native import dec, enc
        info = units.get_world().func(c.key)
        argnames = [a.arg for a in info.node.args.args]
        try:
            cands = c.bv_replay({k: dec(x) for k, x in vc["witness"].items()})
        except Exception as e:      # noqa
            cands = []
            rec["repair_error"] = repr(e)
        tasks = [{"op": "clause", "sidecar": c.sidecar, "key": c.key, "clause": c.ensures[0][0], "argnames": argnames,
                  "args": [enc(v[n]) for n in argnames]} for v in cands]
        if tasks:
            rec["kind"] = "clause"
            rec["tasks"] = tasks
            outs = units.native_batch(tasks)
            rec["native_results"] = outs
            for t, o in zip(tasks, outs):
                if o["ok"] and o["result"].get("holds") is False:
                    rec["failing_task"] = t
                    rec["failing_result"] = o["result"]
                    return True, rec
            return False, rec
    # scenario obligations: the driver may offer a native replay function
    rp = getattr(driver, "replay", None)
    if rp is not None:
        try:
            r = rp(vc, unit)
            if r is not None:
                rec.update(r[1])
                return r[0], rec
        except Exception as e:      # noqa
            rec["replay_error"] = repr(e)
    rec["kind"] = "model-only"
    return None, rec


def run_property(prop, tier):
    from . import units, contracts
    from .world import get_world
    t0 = time.time()
    seed = int(os.environ.get("VERIF_SEED", "0") or 0)
    driver = importlib.import_module(f"props.{prop}")
    w = get_world()
    contracts.load_sidecars(w, driver.SIDECARS)
    specs = driver.units(tier)
    results = units.run_units(specs)
    known = load_known()
    baseline = load_baseline()
    lines = []
    violations = 0
    undecided = []
    crashed = []
    obligations = discharged = 0
    known_reported = []
    by_backend = {}
    samples = []
    functions = []
    inlined = set()
    used = set()
    solver_time = 0.0
    paths = 0
    diff_runs = diff_mismatch = 0
    vacuity = 0
    exhaustive_cases = 0
    bounded_units = []
    replay_dir = os.path.join(VERIF, "replays", prop)
    all_names = []
    refuted = {}
    cvc5_stats = {}
    if os.environ.get("PYVC_VERBOSE"):
        for spec, res in sorted(zip(specs, results), key=lambda x: -(x[1].get("wall") or 0)):
            print(f"  unit {res.get('unit')}: wall={res.get('wall', 0):.1f}s paths={res.get('paths')} "
                  f"vcs={len(res.get('vcs', []))} solver={res.get('solver_time', 0):.1f}s queries={res.get('queries')}")
    for spec, res in zip(specs, results):
        if res.get("crash") or (res.get("error") and not res.get("vcs")):
            if res.get("crash") or res.get("native"):
                crashed.append((res.get("unit"), res.get("error")))
            else:
                undecided.append((res.get("unit"), res.get("error")))
            continue
        paths += res.get("paths", 0)
        solver_time += res.get("solver_time", 0.0)
        inlined |= set(res.get("inlined", []))
        used |= set(res.get("contracts_used", []))
        exhaustive_cases += res.get("cases", 0) or 0
        bvcs = [vc for vc in res.get("vcs", []) if vc.get("backend") == "bounded-exhaustive" and prop in vc["props"]]
        if bvcs:
            # bounded stand-ins are listed apart and are not proofs
            bounded_units.append({"unit": res.get("unit"), "cases": res.get("cases"), "bound": bvcs[0].get("detail"),
                                  "obligations": len(bvcs), "counted_as": "bounded, not proved"})
        if spec[0] == "contract":
            functions.append({"function": res["unit"], "source_sha256": res.get("source_hash"),
                              "paths": res.get("paths"), "outcomes": res.get("outcomes")})
            cov = res.get("cover", {})
            vacuity += len(cov.get("wanted", []))
            if cov.get("missing"):
                undecided.append((res["unit"], f"vacuity guard: outcome(s) {cov['missing']} unreachable"))
            if res.get("paths", 0) == 0:
                undecided.append((res["unit"], "function under contract yielded zero paths"))
        if spec[0] == "differential":
            diff_runs += res.get("samples", 0)
            for u in res.get("unsupported", [])[:3]:
                undecided.append((res["unit"], "unsupported: " + str(u["reason"])))
            if res.get("mismatches"):
                diff_mismatch += len(res["mismatches"])
                crashed.append((res["unit"], "executor disagrees with CPython: " + json.dumps(res["mismatches"][:2])))
            continue
        for u in res.get("unsupported", []):
            undecided.append((res["unit"], "unsupported: " + str(u["reason"])))
        for vc in res.get("vcs", []):
            if prop not in vc["props"]:
                continue
            if len(samples) < 6 and vc["verdict"] == "discharged" and vc["backend"] != "ground":
                samples.append({"obligation": vc["name"], "backend": vc["backend"], "time_s": vc["time"],
                                "path": vc.get("path")})
            if vc["verdict"] == "discharged":
                by_backend[vc["backend"]] = by_backend.get(vc["backend"], 0) + 1
                if vc["backend"] == "bounded-exhaustive":
                    continue            # a bounded stand-in that held: listed under `bounded`, never counted as proved
                all_names.append(vc["name"])
                obligations += 1
                discharged += 1
                if vc.get("cvc5"):
                    cvc5_stats[vc["cvc5"]] = cvc5_stats.get(vc["cvc5"], 0) + 1
                continue
            if vc["verdict"] == "unknown":
                obligations += 1
                undecided.append((vc["name"], "solver answered unknown / timed out (z3 and cvc5)"))
                continue
            refuted.setdefault(vc["name"], []).append((vc, res))
    # refuted obligations, one verdict per obligation name (instances = paths / table rows)
    for name, insts in refuted.items():
        verdict = None
        # witnesses are extracted for the first instances of a name only; the others share its verdict
        with_w = [(vc, res) for vc, res in insts if vc.get("witness") or vc.get("reproduced")] or insts[:1]
        was_known = False
        for vc, res in with_w:
            reproduced, rec = replay_vc(prop, vc, res, driver)
            rec["reproduced"] = reproduced
            k = [f for f in known["findings"] if finding_matches(f, prop, vc)]
            if reproduced and k:
                was_known = True
                if k[0] not in known_reported:
                    known_reported.append(k[0])
                    lines.append(f"KNOWN-FINDING: property={prop} {k[0]['what']}")
                continue
            if reproduced:
                verdict = ("violation", vc, rec)
                break
            if verdict is None:
                verdict = ("unreproduced", vc, rec)
        if was_known and (verdict is None or verdict[0] == "unreproduced"):
            continue
        if verdict is not None:
            obligations += 1
        if verdict is None:
            continue
        kind, vc, rec = verdict
        os.makedirs(replay_dir, exist_ok=True)
        rpath = os.path.join(replay_dir, sanitize(name) + ".json")
        if kind == "violation":
            json.dump(rec, open(rpath, "w"), indent=1, default=str)
            violations += 1
            lines.append(f"VIOLATION property={prop} replay={rpath}")
            lines.append(f"  obligation {name} refuted by {vc['backend']}; reproduced on the real code "
                         f"({len(insts)} refuted instance(s))")
        elif name in baseline:
            json.dump(rec, open(rpath, "w"), indent=1, default=str)
            violations += 1
            lines.append(f"VIOLATION property={prop} replay={rpath} no-failing-input-found")
            lines.append(f"  obligation {name} (proved on the baseline tree) is now refuted by {vc['backend']}")
        else:
            undecided.append((name, "refuted by the solver but not reproduced on the real code and not in "
                                    "the baseline of proved obligations"))
    # known findings that no longer reproduce are reported (the entry is stale), they do not fail the check
    for f in known["findings"]:
        if f["property"] == prop and f not in known_reported:
            lines.append(f"NOTE: known finding no longer observed: {f['what']}")
    if obligations == 0 and not crashed:
        undecided.append((prop, "zero obligations generated"))
    info = getattr(driver, "INFO", {})
    wall = time.time() - t0
    evidence = {
        "property_id": prop, "tier": tier, "seed": seed, "level": "proof",
        "coverage": {
            "obligations": obligations, "discharged": discharged,
            "checker_cmd": f"./check {prop} {tier}",
            "trusted_base": info.get("trusted_base", []),
            "samples": samples or [{"note": "no solver-discharged obligation in this run"}],
            "functions_under_contract": functions,
            "inlined_functions": sorted(inlined),
            "callee_contracts_used": sorted(used),
            "by_backend": by_backend,
            "cvc5_recheck_of_z3_proofs": cvc5_stats,
            "solver_time_s": round(solver_time, 3),
            "paths": paths,
            "differential_runs": diff_runs, "differential_mismatches": diff_mismatch,
            "vacuity_checks": vacuity,
            "exhaustive_cases": exhaustive_cases,
            "undecided": [{"what": a, "why": str(b)[:500]} for a, b in undecided][:50],
            "undecided_clauses": info.get("undecided_clauses", []),
            "bounded": list(info.get("bounded", [])) + bounded_units,
            "known_findings_reported": [f["what"] for f in known_reported],
            "explanation": info.get("explanation", ""),
        },
        "assumptions": info.get("assumptions", []),
        "wall_s": round(wall, 2),
        "violations": violations,
    }
    # evidence of a run against a scratch copy (self-test, seeded changes) never replaces the evidence of /repo
    evdir = os.path.join(VERIF, "evidence") if os.path.realpath(REPO) == "/repo" else os.path.join(
        os.environ.get("TMPDIR", "/tmp"), "pyvc_scratch_evidence")
    os.makedirs(evdir, exist_ok=True)
    json.dump(evidence, open(os.path.join(evdir, f"{prop}.json"), "w"), indent=1)
    for ln in lines:
        print(ln)
    for a, b in undecided:
        print(f"UNDECIDED obligation={a} reason={str(b)[:300]}")
    for a, b in crashed:
        print(f"CHECKER-ERROR unit={a} {str(b)[-1500:]}")
    print(f"{prop} {tier}: obligations={obligations} discharged={discharged} violations={violations} "
          f"undecided={len(undecided)} known_findings={len(known_reported)} paths={paths} wall={wall:.1f}s")
    if os.environ.get("PYVC_NAMES"):
        json.dump(sorted(set(all_names)), open(os.environ["PYVC_NAMES"], "w"))
    if violations:
        return 1          # a confirmed violation stands even if another unit could not be run
    if crashed:
        return 3
    if undecided:
        return 2
    return 0


def cmd_replay(path):
    from . import units
    rec = json.load(open(path))
    kind = rec.get("kind")
    if kind == "clause":
        outs = units.native_batch([rec["failing_task"]] if "failing_task" in rec else rec["tasks"])
        bad = [o for o in outs if o["ok"] and o["result"].get("holds") is False]
        print(json.dumps(outs, indent=1)[:3000])
        print("real code still violates the clause" if bad else "not reproduced")
        return 1 if bad else 0
    if kind == "native":
        n = rec["native"]
        out = units.native_batch([{"op": "func", "module": n["module"], "func": n["func"],
                                   "kwargs": n.get("kwargs") or {}}])[0]
        from .native import dec
        fails = dec(out["result"])["failures"] if out["ok"] else None
        ob = rec["obligation"].rsplit("/", 1)[-1]
        bad = [f for f in (fails or []) if f.get("obligation") == ob]
        print(json.dumps(bad[:5], indent=1, default=str))
        print("real code still violates the obligation" if bad else "not reproduced")
        return 1 if bad else 0
    if kind == "script":
        out = units.native_batch([rec["native_task"]])[0]
        print(json.dumps(out, indent=1)[:3000])
        from .native import dec
        res = dec(out["result"]) if out["ok"] else {}
        bad = bool(out["ok"] and isinstance(res, dict) and res.get("violates"))
        print("real code still violates the obligation" if bad else "not reproduced")
        return 1 if bad else 0
    print("replay file carries the failed obligation and the solver's model only (no-failing-input-found):")
    print(json.dumps({k: rec.get(k) for k in ("property", "obligation", "solver_model", "path")}, indent=1)[:4000])
    return 0


def main(argv):
    if not argv:
        print(__doc__)
        return 3
    if argv[0] == "setup":
        return cmd_setup()
    if argv[0] == "replay":
        return cmd_replay(argv[1])
    if argv[0] == "all":
        tier = argv[1] if len(argv) > 1 else "quick"
        worst = 0
        man = json.load(open(os.path.join(VERIF, "MANIFEST.json")))
        for chk in man["checks"]:
            rc = subprocess.call([os.path.join(VERIF, "check"), chk["property_id"], tier])
            worst = max(worst, rc)
        return worst
    if argv[0] == "baseline":
        # record the names of the obligations proved on this tree (used only for the no-failing-input-found rule)
        names = set()
        man = json.load(open(os.path.join(VERIF, "MANIFEST.json")))
        for chk in man["checks"]:
            tmp = f"/tmp/pyvc_names_{chk['property_id']}.json"
            env = dict(os.environ, PYVC_NAMES=tmp)
            r = subprocess.run([os.path.join(VERIF, "check"), chk["property_id"], "quick"], env=env,
                               capture_output=True, text=True)
            last = (r.stdout.strip().splitlines() or [""])[-1]
            print(f"{chk['property_id']} rc={r.returncode} {last}", flush=True)
            if r.returncode != 0:
                # a baseline is only meaningful for a tree on which every check passes
                print("\n".join(l for l in r.stdout.splitlines() if l.startswith(("VIOLATION", "UNDECIDED", "CHECKER")))[:2000])
            if os.path.exists(tmp):
                names |= set(json.load(open(tmp)))
                os.unlink(tmp)
        json.dump({"obligations": sorted(names)}, open(os.path.join(VERIF, "baseline_obligations.json"), "w"), indent=0)
        print(len(names), "obligation names recorded")
        return 0
    if argv[0] == "selftest":
        from . import selftest
        return selftest.main(argv[1:])
    if re.fullmatch(r"C\d\d", argv[0]):
        tier = argv[1] if len(argv) > 1 else os.environ.get("VERIF_TIER", "quick")
        try:
            return run_property(argv[0], tier)
        except Exception:      # noqa
            import traceback
            traceback.print_exc()
            print(f"CHECKER-ERROR {argv[0]}: traceback inside the verifier")
            return 3
    print("unknown command", argv)
    return 3


if __name__ == "__main__":
    sys.exit(main(sys.argv[1:]))
