"""Loading of the code under verification: source files -> ast index, plus the imported concrete modules."""
from __future__ import annotations

import ast
import hashlib
import importlib
import os
import sys
import types

REPO = os.environ.get("GOODWE_REPO", "/repo")
VERIF = os.path.dirname(os.path.dirname(os.path.abspath(__file__)))


class FuncInfo:
    __slots__ = ('node', 'modname', 'qualname', 'clsname', 'is_async', 'filename')

    def __init__(self, node, modname, qualname, clsname, filename):
        self.node = node
        self.modname = modname
        self.qualname = qualname
        self.clsname = clsname          # innermost enclosing class name (for name mangling / super()), or None
        self.is_async = isinstance(node, ast.AsyncFunctionDef)
        self.filename = filename

    @property
    def key(self):
        return f"{self.modname}.{self.qualname}"

    def __repr__(self):
        return f"<FuncInfo {self.key}>"


class World:
    def __init__(self):
        self.funcs = {}       # (modname, qualname) -> FuncInfo
        self.lambdas = {}     # (filename, lineno) -> [FuncInfo]
        self.by_code = {}     # code object id cache
        self.hashes = {}      # filename -> sha256
        self.modules = {}
        self.sources = {}

    def load_package(self, pkgname, root):
        """import package `pkgname` found under directory `root` and index all its modules"""
        if root not in sys.path:
            sys.path.insert(0, root)
        pkg = importlib.import_module(pkgname)
        pkgdir = os.path.dirname(pkg.__file__)
        if not os.path.realpath(pkgdir).startswith(os.path.realpath(root)):
            raise RuntimeError(f"{pkgname} imported from {pkgdir}, expected under {root}")
        for fn in sorted(os.listdir(pkgdir)):
            if fn.endswith(".py"):
                modname = pkgname if fn == "__init__.py" else f"{pkgname}.{fn[:-3]}"
                mod = importlib.import_module(modname)
                self.index_module(mod)
        return pkg

    def index_module(self, mod):
        filename = mod.__file__
        with open(filename, "rb") as f:
            raw = f.read()
        self.hashes[filename] = hashlib.sha256(raw).hexdigest()
        src = raw.decode("utf-8")
        self.sources[filename] = src
        tree = ast.parse(src, filename)
        self.modules[mod.__name__] = mod
        self._walk(tree, mod.__name__, "", None, filename)

    def _walk(self, node, modname, prefix, clsname, filename):
        for child in ast.iter_child_nodes(node):
            if isinstance(child, (ast.FunctionDef, ast.AsyncFunctionDef)):
                q = prefix + child.name
                self.funcs[(modname, q)] = FuncInfo(child, modname, q, clsname, filename)
                self._walk(child, modname, q + ".<locals>.", clsname, filename)
            elif isinstance(child, ast.ClassDef):
                q = prefix + child.name
                self._walk(child, modname, q + ".", child.name, filename)
            elif isinstance(child, ast.Lambda):
                fi = FuncInfo(child, modname, prefix + "<lambda>", clsname, filename)
                self.lambdas.setdefault((filename, child.lineno), []).append(fi)
                self._walk(child, modname, prefix + "<lambda>.<locals>.", clsname, filename)
            else:
                self._walk(child, modname, prefix, clsname, filename)

    def funcinfo(self, fn):
        """FuncInfo for a real python function object (or None)"""
        f = getattr(fn, "__func__", fn)
        code = getattr(f, "__code__", None)
        if code is None:
            return None
        cid = id(code)
        if cid in self.by_code:
            return self.by_code[cid]
        info = None
        if code.co_filename in self.sources:
            if code.co_name == "<lambda>":
                cands = self.lambdas.get((code.co_filename, code.co_firstlineno), [])
                if len(cands) == 1:
                    info = cands[0]
                elif len(cands) > 1:
                    nargs = code.co_argcount
                    c2 = [c for c in cands if len(c.node.args.args) == nargs
                          and tuple(a.arg for a in c.node.args.args) == code.co_varnames[:nargs]]
                    if len(c2) == 1:
                        info = c2[0]
            else:
                info = self.funcs.get((f.__module__, f.__qualname__))
                if info is not None and info.node.lineno != code.co_firstlineno:
                    # decorated functions report the decorator line; accept when within the decorator list
                    decos = getattr(info.node, 'decorator_list', [])
                    if not (decos and decos[0].lineno == code.co_firstlineno):
                        info = None
        self.by_code[cid] = info
        return info

    def func(self, key):
        """FuncInfo by 'module.qualname'"""
        for (m, q), fi in self.funcs.items():
            if f"{m}.{q}" == key:
                return fi
        return None

    def resolve(self, key):
        """real object for 'module.qual.name'"""
        parts = key.split(".")
        for i in range(len(parts), 0, -1):
            modname = ".".join(parts[:i])
            if modname in self.modules:
                obj = self.modules[modname]
                for p in parts[i:]:
                    obj = obj.__dict__[p] if isinstance(obj, type) and p in obj.__dict__ else getattr(obj, p)
                return obj
        raise KeyError(key)


_WORLD = None


def get_world():
    global _WORLD
    if _WORLD is None:
        w = World()
        w.load_package("goodwe", REPO)
        from . import spec
        w.index_module(spec)
        w.repo = REPO
        _WORLD = w
    return _WORLD
