"""Sidecar contracts: registry, application at call sites (modular rule) and verification of a function body
against its own contract."""
from __future__ import annotations

import importlib
import inspect
import os
import sys

import z3

from .interp import explore, PyRaise, Exec, PathEnd, Infeasible
from .sbytes import SBytes
from .sym import SInt, SBool, SAny, Unsupported, mk_bool, iterm, is_sym

from .api import REGISTRY, Contract, contract

INLINE = object()


def load_sidecars(world, names):
    """import /verif/contracts/<name>.py natively (registers contracts) and index their source for interpretation"""
    from .world import VERIF
    if VERIF not in sys.path:
        sys.path.insert(0, VERIF)
    for n in names:
        mod = importlib.import_module(f"contracts.{n}")
        if mod.__file__ not in world.sources:
            world.index_module(mod)
    return REGISTRY


# ---- evaluation of contract clauses -----------------------------------------------------------------------------
def eval_spec_value(ex, f, args):
    """evaluate a specification function (sidecar) on positional arguments, returning its value"""
    info = ex.world.funcinfo(f)
    if info is None:
        raise Unsupported(f"specification function {f!r} has no indexed source")
    params = [a.arg for a in info.node.args.args]
    saved = ex.spec_mode
    ex.spec_mode += 1
    try:
        return ex.run_function(info, dict(zip(params, args)), f.__globals__, None)
    finally:
        ex.spec_mode = saved


def eval_clause(ex, f, env):
    """evaluate clause function f (a plain function defined in a sidecar) in specification mode; parameters are
    bound by name from env"""
    info = ex.world.funcinfo(f)
    if info is None:
        raise Unsupported(f"contract clause {f!r} has no indexed source")
    params = [a.arg for a in info.node.args.args]
    bound = {}
    for p in params:
        if p not in env:
            raise Unsupported(f"contract clause {info.qualname}: no value for parameter '{p}'")
        bound[p] = env[p]
    saved = ex.spec_mode
    ex.spec_mode += 1
    try:
        r = ex.run_function(info, bound, f.__globals__, None)
    except PyRaise as pr:
        ex.notes.append(f"clause {info.qualname} raised {type(pr.exc).__name__}: counted as not holding")
        return False
    finally:
        ex.spec_mode = saved
    t = ex.truth_value(r)
    return t


def _glob_slot(ex, dotted):
    modname, _, name = dotted.rpartition(".")
    mod = ex.world.modules[modname]
    return (id(mod.__dict__), name), mod, name


def bind_globals_old(ex, c, env, fresh):
    for dotted, kind in c.globals_in.items():
        slot, mod, name = _glob_slot(ex, dotted)
        if fresh:
            ex.glob_overlay[slot] = make_value(ex, kind, name)
            ex.inputs["old_" + name] = ex.glob_overlay[slot]
        env["old_" + name] = ex.glob_overlay.get(slot, mod.__dict__.get(name))


def bind_globals_new(ex, c, env, havoc):
    for dotted, kind in c.globals_in.items():
        slot, mod, name = _glob_slot(ex, dotted)
        if havoc:
            ex.glob_overlay[slot] = make_value(ex, kind, name)
        env["new_" + name] = ex.glob_overlay.get(slot, mod.__dict__.get(name))


def make_value(ex, kind, name):
    if callable(kind):
        return kind(ex)
    if kind == "int":
        return ex.fresh_int(name)
    if kind == "bool":
        return ex.fresh_bool(name)
    if kind == "bytes":
        return SBytes.fresh(ex, name)
    if kind == "bytearray":
        return SBytes.fresh(ex, name, mutable=True)
    if kind == "float":
        return ex.fresh_float(name)
    if kind == "str":
        return ex.fresh_str(name)
    if kind == "strid":
        from .models import fresh_strid
        return fresh_strid(ex, name)
    if kind == "any":
        return ex.fresh_any(name)
    if kind == "none":
        return None
    raise Unsupported(f"unknown value kind {kind!r}")


def make_exception(ex, c, E, bound):
    if c.make_raised is not None:
        r = c.make_raised(ex, E, bound)
        if r is not None:
            return r
    obj = E.__new__(E)
    ex.new_object(obj)
    init = getattr(E, "__init__", None)
    info = ex.world.funcinfo(init) if init else None
    if info is not None:
        for a in info.node.args.args[1:]:
            ann = getattr(a.annotation, "id", None) if a.annotation is not None else None
            if ann == "int":
                v = ex.fresh_int("exc_" + a.arg)
            elif ann == "str":
                from .models import fresh_strid
                v = fresh_strid(ex, "exc_" + a.arg)
            else:
                v = ex.fresh_any("exc_" + a.arg)
            object.__setattr__(obj, a.arg, v)
    return obj


def _param_defaults(info, f):
    a = info.node.args
    names = [x.arg for x in a.args]
    d = list(getattr(f, "__defaults__", None) or ())
    out = dict(zip(names[len(names) - len(d):], d))
    out.update(getattr(f, "__kwdefaults__", None) or {})
    return out


def apply(ex, c, info, fn, bound, cls, closure_env, selfobj):
    """modular rule at a call site: obligation requires, then assume ensures / raises over fresh symbols"""
    if c.args:
        defaults = _param_defaults(info, getattr(fn, "__func__", fn))
        for p, v in bound.items():
            if p not in c.args and p != "self" and p in defaults and v is not defaults[p] and not (
                    not is_sym(v) and not is_sym(defaults[p]) and type(v) is type(defaults[p]) and v == defaults[p]):
                # the call passes a parameter the contract knows nothing about: its clauses do not describe this call
                ex.inlined.add(info.key)
                return INLINE
    if c.mode == "inline" or c.inline_at_calls or info.qualname.endswith(".__init__"):
        # constructors act on `self`: their contracts are proved for the body; at call sites the body is executed
        ex.inlined.add(info.key)
        return INLINE
    if c.pure and not any(is_sym(v) for v in bound.values()) and not info.is_async:
        return INLINE          # ground evaluation of the real function on concrete arguments
    if info.is_async:
        from . import aio
        return aio.ContractCoro(ex, c, info, bound)
    return apply_now(ex, c, info, bound)


def apply_now(ex, c, info, bound):
    ex.called_contracts.add(info.key)
    bound = dict(bound)
    bind_globals_old(ex, c, bound, False)
    if c.requires is not None:
        tag = f"[{' '.join(c.props)}]" if c.props else ""
        ex.check(f"call:{info.key}/requires{tag}", eval_clause(ex, c.requires, bound))
    excs = list(c.raises_only) if c.raises_only else []
    allow_return = True
    if c.outcomes is not None:
        allow_return, excs = c.outcomes(ex, bound, excs)
    options = ([None] if allow_return else []) + excs
    if not options:
        raise Infeasible()
    pick = options[ex.choose(len(options), tag=f"call:{info.key}")]
    k = 0 if pick is None else 1 + excs.index(pick)
    ex.assuming += 1
    try:
        if k == 0:
            result = c.make_result(ex, bound) if c.make_result else make_value(ex, c.returns, "ret_" + info.qualname)
            env = dict(bound, result=result)
            bind_globals_new(ex, c, env, True)
            for n, f in c.ensures:
                try:
                    ex.assume(eval_clause(ex, f, env))
                except Infeasible:
                    # requires was just proved, so a satisfiable callee post must exist: this is a vacuity bug in the
                    # contract (or in how it is applied), never a silently dropped path
                    raise Unsupported(f"post-condition {n} of {info.key} is unsatisfiable at this call site")
            return result
        E = excs[k - 1]
        raised = make_exception(ex, c, E, bound)
        env = dict(bound, raised=raised)
        for n, exc, f in c.raises:
            if exc == E.__name__:
                ex.assume(eval_clause(ex, f, env))
    finally:
        ex.assuming -= 1
    raise PyRaise(raised)


# ---- verification of a body against its contract ---------------------------------------------------------------------
def verify_body(ex, c, info, fn, bound=None):
    """symbolically execute the real body of `info` from fresh arguments and check every clause of c"""
    f = getattr(fn, "__func__", fn)
    from .models import defining_class
    cls = defining_class(ex, info, fn)
    if bound is None:
        bound = {}
        defaults = _param_defaults(info, f)
        for a in info.node.args.args:
            p = a.arg
            if p not in c.args:
                if p in defaults:
                    # a parameter the contract does not know, with a default: the contract speaks about calls that
                    # leave it alone (call sites that pass it execute the body instead, see apply)
                    bound[p] = defaults[p]
                    continue
                raise Unsupported(f"{c.key}: contract declares no kind for parameter '{p}'")
            bound[p] = make_value(ex, c.args[p], p)
    ex.inputs = dict(bound)
    ex.verify_key = c.key
    genv = {}
    bind_globals_old(ex, c, genv, True)
    if c.requires is not None:
        ex.assuming += 1
        try:
            ex.assume(eval_clause(ex, c.requires, dict(bound, **genv)))
        finally:
            ex.assuming -= 1
    selfobj = bound.get("self") if cls is not None else None
    try:
        result = ex.run_function(info, dict(bound), f.__globals__, cls, None, selfobj)
    except PyRaise as pr:
        E = type(pr.exc)
        if c.raises_only is not None:
            ok = any(issubclass(E, a) for a in c.raises_only)
            ex.check(c.raises_only_name, ok, detail=f"raised {E.__name__}: {pr.exc}")
        env = dict(bound, raised=pr.exc, **genv)
        bind_globals_new(ex, c, env, False)
        for n, exc, clause in c.raises:
            if any(k.__name__ == exc for k in E.__mro__):
                ex.check(n, eval_clause(ex, clause, env))
        raise
    if c.raises_only is not None:
        ex.check(c.raises_only_name, True)       # same obligation on the paths that return (keeps its name known)
    env = dict(bound, result=result, **genv)
    bind_globals_new(ex, c, env, False)
    for n, clause in c.ensures:
        ex.check(n, eval_clause(ex, clause, env))
    return result


def outcome_label(res):
    if res.outcome == "return":
        v = res.value
        if isinstance(v, bool):
            return str(v)
        return "return"
    if res.outcome == "raise":
        return type(res.value).__name__
    return res.outcome
