"""What sidecar contract files import.  Pure stdlib: the same files are imported by the executor (python3-vt, with
z3) and by the native replay / differential runner (/venv/bin/python, without z3)."""
from __future__ import annotations

REGISTRY = {}          # key -> Contract


class Contract:
    def __init__(self, key, cls):
        self.key = key
        self.cls = cls
        d = cls.__dict__
        self.name = cls.__name__
        self.sidecar = cls.__module__.split(".")[-1]
        self.args = d.get("args", {})
        self.mode = d.get("mode", "contract")
        self.inline_at_calls = d.get("inline_at_calls", False)   # pure, tiny: the (verified) body is its own summary
        self.pure = d.get("pure", False)
        self.returns = d.get("returns", "any")
        self.raises_only = d.get("raises_only", None)     # None = unspecified, () = raises nothing
        # name of the obligation "raises nothing else" (ends with raises_only; property tags may be prefixed)
        self.raises_only_name = d.get("raises_only_name", "raises_only")
        self.cover = d.get("cover", ())
        self.modifies = d.get("modifies", None)
        self.samples = _unwrap(d.get("samples", None))
        self.repair = _unwrap(d.get("repair", None))
        self.make_result = _unwrap(d.get("make_result", None))
        self.make_raised = _unwrap(d.get("make_raised", None))
        self.outcomes = _unwrap(d.get("outcomes", None))
        self.requires = _unwrap(d.get("requires", None))
        self.props = d.get("props", ())
        self.ensures = [(n, _unwrap(f)) for n, f in d.items()
                        if (n == "ensures" or n.startswith("ensures_")) and callable(_unwrap(f))]
        self.raises = []      # (clause name, exception class name, fn)
        for n, f in d.items():
            if n.startswith("raises_") and not n.startswith("raises_only") and callable(_unwrap(f)):
                exc = n[len("raises_"):].split("__")[0]
                self.raises.append((n, exc, _unwrap(f)))
        self.loops = {}
        for n, f in d.items():
            if n.startswith("loop") and n[4:5].isdigit() and callable(_unwrap(f)):
                k, _, what = n[4:].partition("_")
                self.loops.setdefault(int(k), {})[what] = _unwrap(f)
        self.globals_in = d.get("globals_in", {})     # module globals read/written: {"module.name": kind}
        self.bv_body = d.get("bv_body", ())
        self.bv_replay = _unwrap(d.get("bv_replay", None))
        self.assumed = d.get("assumed", False)   # True: trusted contract (environment), never verified
        self.note = d.get("note", "")

    def clause(self, name):
        if name == "requires":
            return self.requires
        for n, f in self.ensures:
            if n == name:
                return f
        for n, e, f in self.raises:
            if n == name:
                return f
        return None


def _unwrap(f):
    return getattr(f, "__func__", f)


def contract(key):
    def deco(cls):
        REGISTRY[key] = Contract(key, cls)
        return cls
    return deco


def fresh_instance(cls):
    """argument factory for `self` of a constructor under contract: an uninitialised instance"""
    def make(ex):
        return ex.new_object(cls.__new__(cls))
    make.instance_of = cls
    return make
