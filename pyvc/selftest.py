"""./check selftest [seed ids...] — the seeded-change catalogue and harmless edits against scratch copies of /repo.

Every seeded change under /verif/seeded/<id>/ must make the check of its property exit 1 (VIOLATION); every harmless
edit (renamed locals, extra logging, reordered independent statements) must leave the listed checks at exit 0."""
from __future__ import annotations

import json
import os
import shutil
import subprocess
import sys
import tempfile

VERIF = os.path.dirname(os.path.dirname(os.path.abspath(__file__)))

HARMLESS = {
    "H01_rename_local_in_rtu_validator": ("modbus.py", [("expected_length", "exp_len")], ("C01", "C02", "C07")),
    "H02_extra_logging_in_datagram_received": ("protocol.py", [(
        '        """On datagram received"""\n',
        '        """On datagram received"""\n        logger.debug("datagram of %d bytes from %s", len(data), addr)\n')],
        ("C04", "C07")),
    "H03_reorder_independent_assignments_in_send_request": ("protocol.py", [(
        "        self.command = command\n        self.response_future = response_future\n        self._partial_data = None\n"
        "        self._partial_missing = 0\n",
        "        self._partial_missing = 0\n        self._partial_data = None\n        self.response_future = response_future\n"
        "        self.command = command\n")], ("C04", "C06", "C07")),
    "H04_reformat_sensor_table_row": ("dt.py", [(
        '        Voltage("vpv1", 30103, "PV1 Voltage", Kind.PV),\n',
        '        Voltage("vpv1",\n                30103,\n                "PV1 Voltage", Kind.PV),\n')], ("C12", "C13")),
    # correct counterparts of seeded changes: the same refactorings done right must stay green
    "H05_bitmap_loop_as_while_with_temporary": ("sensor.py", [(
        "    for i in range(32):\n        if bits & 0x1 == 1:\n            if bitmap.get(i, f'err{i}'):\n"
        "                result.append(bitmap.get(i, f'err{i}'))\n        bits = bits >> 1\n",
        "    i = 0\n    while i < 32:\n        if bits & 0x1 == 1:\n            label = bitmap.get(i, f'err{i}')\n"
        "            if label:\n                result.append(label)\n        bits = bits >> 1\n        i += 1\n")],
        ("C13", "C11")),
    "H06_failure_reason_helper_with_default": ("modbus.py", [
        ("def _create_crc16_table() -> tuple:",
         "def _failure_reason(code: int) -> str:\n    return FAILURE_CODES.get(code, \"UNKNOWN\")\n\n\n"
         "def _create_crc16_table() -> tuple:"),
        ('        failure_code = FAILURE_CODES.get(data[4], "UNKNOWN")\n', '        failure_code = _failure_reason(data[4])\n'),
        ('        failure_code = FAILURE_CODES.get(data[8], "UNKNOWN")\n', '        failure_code = _failure_reason(data[8])\n')],
        ("C01", "C08")),
    "H07_es_switches_written_in_a_loop": ("es.py", [(
        "            await self.write_setting('eco_mode_2_switch', 0)\n            await self.write_setting('eco_mode_3_switch', 0)\n"
        "            await self.write_setting('eco_mode_4_switch', 0)\n",
        "            for switch_id in ('eco_mode_2_switch', 'eco_mode_3_switch', 'eco_mode_4_switch'):\n"
        "                await self.write_setting(switch_id, 0)\n")], ("C19",)),
    "H08_get_sensor_through_a_local": ("et.py", [(
        "        self._sensors_map = {s.id_: s for s in self.sensors()}\n        return self._sensors_map.get(sensor_id)\n",
        "        lookup = {s.id_: s for s in self.sensors()}\n        self._sensors_map = lookup\n"
        "        return lookup.get(sensor_id)\n")], ("C16",)),
    "H09_timer_armed_through_a_helper": ("protocol.py", [
        ("    def _max_retries_reached(self) -> Future:",
         "    def _arm_timeout(self) -> None:\n        self._timer = asyncio.get_running_loop().call_later(self.timeout, "
         "self._timeout_mechanism)\n\n    def _max_retries_reached(self) -> Future:"),
        ("        self._transport.sendto(payload)\n        if self._timer:\n            self._timer.cancel()\n"
         "        self._timer = asyncio.get_running_loop().call_later(self.timeout, self._timeout_mechanism)\n",
         "        self._transport.sendto(payload)\n        if self._timer:\n            self._timer.cancel()\n"
         "        self._arm_timeout()\n")], ("C04", "C05", "C06")),
    # counterpart of C07_6: *immutable* class-level defaults rebound on the object are harmless (the constructor units
    # object to mutable class-level state only)
    "H10_immutable_class_level_defaults_in_protocol": ("protocol.py", [
        ("class InverterProtocol:\n", "class InverterProtocol:\n    _partial_missing: int = 0\n    keep_alive: bool = False\n"),
        ("        self._partial_missing: int = 0\n", ""),
        ("        self.keep_alive: bool = False\n", "")], ("C07", "C10")),
}


def scratch():
    tmp = tempfile.mkdtemp(prefix="selftest_")
    for d in ("goodwe", "tests"):
        shutil.copytree(os.path.join("/repo", d), os.path.join(tmp, d))
    return tmp


def run_check(prop, repo):
    env = dict(os.environ, GOODWE_REPO=repo, PYTHONDONTWRITEBYTECODE="1")
    r = subprocess.run([os.path.join(VERIF, "check"), prop, "quick"], capture_output=True, text=True, env=env, cwd=VERIF)
    return r.returncode, (r.stdout.strip().splitlines() or [""])[-1]


def main(argv):
    bad = 0
    only = set(argv)
    for name, (fname, edits, props) in HARMLESS.items():
        if only and name.split("_")[0] not in only:
            continue
        tmp = scratch()
        try:
            p = os.path.join(tmp, "goodwe", fname)
            s = open(p).read()
            for old, new in edits:
                if old not in s:
                    print(f"{name}: pattern not found (tree changed) - skipped")
                    break
                s = s.replace(old, new)
            else:
                open(p, "w").write(s)
                t = subprocess.run(["/venv/bin/python", "-m", "pytest", "-q", "-p", "no:cacheprovider", "tests"], cwd=tmp,
                                   capture_output=True, text=True)
                for prop in props:
                    rc, last = run_check(prop, tmp)
                    ok = rc == 0
                    bad += not ok
                    print(f"{name}: {prop} exit {rc} {'ok' if ok else 'FALSE ALARM'}  [{last[-80:]}]  tests: "
                          f"{(t.stdout.strip().splitlines() or ['?'])[-1]}")
        finally:
            shutil.rmtree(tmp, ignore_errors=True)
    sdir = os.path.join(VERIF, "seeded")
    for sid in sorted(os.listdir(sdir)) if os.path.isdir(sdir) else []:
        if only and sid not in only:
            continue
        meta = os.path.join(sdir, sid, "meta.json")
        if not os.path.exists(meta):
            continue
        prop = json.load(open(meta))["breaks_property"]
        tmp = scratch()
        try:
            ap = subprocess.run(["patch", "-p1", "-i", os.path.join(sdir, sid, "patch.diff")], cwd=tmp,
                                capture_output=True, text=True)
            if ap.returncode != 0:
                print(f"{sid}: patch no longer applies - skipped")
                continue
            rc, last = run_check(prop, tmp)
            ok = rc == 1
            bad += not ok
            print(f"{sid}: {prop} exit {rc} {'detected' if ok else 'NOT DETECTED'}  [{last[-90:]}]")
        finally:
            shutil.rmtree(tmp, ignore_errors=True)
    return 1 if bad else 0
