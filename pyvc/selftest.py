"""./check selftest [seed ids...] — the seeded-change catalogue and harmless edits against scratch copies of /repo.

Every seeded change under /verif/seeded/<id>/ must make the check of its property exit 1 (VIOLATION); every harmless
edit (renamed locals, extra logging, reordered independent statements) must leave the listed checks at exit 0."""
from __future__ import annotations

import json
import os
import shutil
import subprocess
import sys
import tempfile

VERIF = os.path.dirname(os.path.dirname(os.path.abspath(__file__)))

HARMLESS = {
    "H01_rename_local_in_rtu_validator": ("modbus.py", [("expected_length", "exp_len")], ("C01", "C02", "C07")),
    "H02_extra_logging_in_datagram_received": ("protocol.py", [(
        '        """On datagram received"""\n',
        '        """On datagram received"""\n        logger.debug("datagram of %d bytes from %s", len(data), addr)\n')],
        ("C04", "C07")),
    "H03_reorder_independent_assignments_in_send_request": ("protocol.py", [(
        "        self.command = command\n        self.response_future = response_future\n        self._partial_data = None\n"
        "        self._partial_missing = 0\n",
        "        self._partial_missing = 0\n        self._partial_data = None\n        self.response_future = response_future\n"
        "        self.command = command\n")], ("C04", "C06", "C07")),
    "H04_reformat_sensor_table_row": ("dt.py", [(
        '        Voltage("vpv1", 30103, "PV1 Voltage", Kind.PV),\n',
        '        Voltage("vpv1",\n                30103,\n                "PV1 Voltage", Kind.PV),\n')], ("C12", "C13")),
}


def scratch():
    tmp = tempfile.mkdtemp(prefix="selftest_")
    for d in ("goodwe", "tests"):
        shutil.copytree(os.path.join("/repo", d), os.path.join(tmp, d))
    return tmp


def run_check(prop, repo):
    env = dict(os.environ, GOODWE_REPO=repo, PYTHONDONTWRITEBYTECODE="1")
    r = subprocess.run([os.path.join(VERIF, "check"), prop, "quick"], capture_output=True, text=True, env=env, cwd=VERIF)
    return r.returncode, (r.stdout.strip().splitlines() or [""])[-1]


def main(argv):
    bad = 0
    only = set(argv)
    for name, (fname, edits, props) in HARMLESS.items():
        if only and name.split("_")[0] not in only:
            continue
        tmp = scratch()
        try:
            p = os.path.join(tmp, "goodwe", fname)
            s = open(p).read()
            for old, new in edits:
                if old not in s:
                    print(f"{name}: pattern not found (tree changed) - skipped")
                    break
                s = s.replace(old, new)
            else:
                open(p, "w").write(s)
                t = subprocess.run(["/venv/bin/python", "-m", "pytest", "-q", "-p", "no:cacheprovider", "tests"], cwd=tmp,
                                   capture_output=True, text=True)
                for prop in props:
                    rc, last = run_check(prop, tmp)
                    ok = rc == 0
                    bad += not ok
                    print(f"{name}: {prop} exit {rc} {'ok' if ok else 'FALSE ALARM'}  [{last[-80:]}]  tests: "
                          f"{(t.stdout.strip().splitlines() or ['?'])[-1]}")
        finally:
            shutil.rmtree(tmp, ignore_errors=True)
    sdir = os.path.join(VERIF, "seeded")
    for sid in sorted(os.listdir(sdir)) if os.path.isdir(sdir) else []:
        if only and sid not in only:
            continue
        meta = os.path.join(sdir, sid, "meta.json")
        if not os.path.exists(meta):
            continue
        prop = json.load(open(meta))["breaks_property"]
        tmp = scratch()
        try:
            ap = subprocess.run(["patch", "-p1", "-i", os.path.join(sdir, sid, "patch.diff")], cwd=tmp,
                                capture_output=True, text=True)
            if ap.returncode != 0:
                print(f"{sid}: patch no longer applies - skipped")
                continue
            rc, last = run_check(prop, tmp)
            ok = rc == 1
            bad += not ok
            print(f"{sid}: {prop} exit {rc} {'detected' if ok else 'NOT DETECTED'}  [{last[-90:]}]")
        finally:
            shutil.rmtree(tmp, ignore_errors=True)
    return 1 if bad else 0
