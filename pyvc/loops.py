"""Loops over byte strings of symbolic length: the invariant rule (DESIGN 2.3)."""
from __future__ import annotations

import ast

import z3

from .interp import PathEnd, BreakSig, ContinueSig, Frame, Env
from .sbytes import zt
from .sym import SInt, SBool, Unsupported, mk_bool, iterm, is_intlike


def loop_ordinal(info, node):
    k = 0
    for n in ast.walk(info.node):
        if isinstance(n, (ast.For, ast.While)):
            if n is node:
                return k
            k += 1
    # ast.walk is breadth-first; recompute in source order
    raise Unsupported("loop not found in its function")


def loops_in_source_order(funcnode):
    out = [n for n in ast.walk(funcnode) if isinstance(n, (ast.For, ast.While))]
    out.sort(key=lambda n: (n.lineno, n.col_offset))
    return out


def assigned_names(stmts):
    names = []
    for s in stmts:
        for n in ast.walk(s):
            if isinstance(n, ast.Name) and isinstance(n.ctx, ast.Store) and n.id not in names:
                names.append(n.id)
            if isinstance(n, ast.Attribute) and isinstance(n.ctx, ast.Store):
                raise Unsupported("loop body with attribute stores under the invariant rule")
    return names


def _havoc_like(ex, name, cur):
    if isinstance(cur, (bool, SBool)):
        return ex.fresh_bool(name)
    if is_intlike(cur):
        return ex.fresh_int(name)
    raise Unsupported(f"cannot havoc loop variable '{name}' of type {type(cur).__name__}")


def _inv_env(fr, extra):
    env = {}
    e = fr.env
    chain = []
    while e is not None:
        chain.append(e)
        e = e.parent
    for e in reversed(chain):
        env.update({k: v for k, v in e.vars.items() if not k.startswith('@')})
    env.update(extra)
    return env


def symbolic_for(ex, node, it, fr):
    from .contracts import eval_clause
    if fr.info is None:
        raise Unsupported("symbolic loop outside an indexed function")
    key = fr.info.key
    c = ex.contracts.get(key)
    ordinal = loops_in_source_order(fr.info.node).index(node)
    spec = c.loops.get(ordinal) if c is not None else None
    if not spec or "inv" not in spec:
        raise Unsupported(f"loop #{ordinal} of {key} iterates over a byte string of symbolic length and has no invariant")
    if not isinstance(node.target, ast.Name):
        raise Unsupported("loop target")
    inv = spec["inv"]
    n = zt(it.length())
    mods = [m for m in assigned_names(node.body)]
    # 1. invariant holds on entry
    ex.check(f"loop{ordinal}.inv_on_entry", eval_clause(ex, inv, _inv_env(fr, {"_i": 0, "_n": it.blen()})))
    which = ex.choose(2, tag=f"loop{ordinal}")
    for m in mods:
        if fr.env.has(m):
            fr.env.vars[m] = _havoc_like(ex, m, fr.env.lookup(m))
    if which == 1:
        # 2. an arbitrary iteration preserves it
        i = ex.fresh_int("_i")
        ex.assume(mk_bool(z3.And(i.t >= 0, i.t < n)))
        ex.assuming += 1
        try:
            ex.assume(eval_clause(ex, inv, _inv_env(fr, {"_i": i, "_n": it.blen()})))
        finally:
            ex.assuming -= 1
        item = it.elem_at(ex, i.t)
        fr.env.vars[node.target.id] = item
        if "body_ensures" in spec:
            pre = _inv_env(fr, {})
            if "body_requires" in spec:
                ex.check(f"loop{ordinal}.body_requires", eval_clause(ex, spec["body_requires"], pre))
            post = dict(pre)
            for m in mods:
                if m in pre:
                    v = _havoc_like(ex, m, pre[m])
                    fr.env.vars[m] = v
                    post[m + "_out"] = v
            ex.assuming += 1
            try:
                ex.assume(eval_clause(ex, spec["body_ensures"], post))
            finally:
                ex.assuming -= 1
        else:
            try:
                ex.exec_block(node.body, fr)
            except ContinueSig:
                pass
            except BreakSig:
                raise Unsupported("break inside a loop under the invariant rule")
        ex.check(f"loop{ordinal}.inv_preserved",
                 eval_clause(ex, inv, _inv_env(fr, {"_i": SInt(i.t + 1), "_n": it.blen()})))
        raise PathEnd()
    # 3. after the loop: invariant at i == n
    ex.assuming += 1
    try:
        ex.assume(eval_clause(ex, inv, _inv_env(fr, {"_i": it.blen(), "_n": it.blen()})))
    finally:
        ex.assuming -= 1
    ex.exec_block(node.orelse, fr)


def verify_loop_body_bv(ex, c, info, fn, ordinal):
    """bit-vector proof of a loop-body lemma: run the real loop body on 32-bit vectors constrained by body_requires
    and check body_ensures.  Only >>, &, |, ^, comparisons and constant-table lookups are admitted in this mode, so
    no operation can wrap around and the result carries over to python's unbounded integers."""
    from .contracts import eval_clause
    spec = c.loops[ordinal]
    node = loops_in_source_order(info.node)[ordinal]
    ex.bv_mode = True
    f = getattr(fn, "__func__", fn)
    reqinfo = ex.world.funcinfo(spec["body_requires"])
    names = [a.arg for a in reqinfo.node.args.args]
    env = Env(None)
    for nme in names:
        env.vars[nme] = ex.fresh_int(nme)
    ex.inputs = dict(env.vars)
    fr = Frame(env, f.__globals__, None, info, None)
    ex.assuming += 1
    try:
        ex.assume(eval_clause(ex, spec["body_requires"], dict(env.vars)))
    finally:
        ex.assuming -= 1
    pre = dict(env.vars)
    ex.frames.append(fr)
    try:
        ex.exec_block(node.body, fr)
    finally:
        ex.frames.pop()
    post = dict(pre)
    for m in assigned_names(node.body):
        post[m + "_out"] = env.vars[m]
    ex.check(f"loop{ordinal}.body_lemma", eval_clause(ex, spec["body_ensures"], post))


def concrete_for(ex, node, items, fr, spec, ordinal, sized=None):
    """loop over a concrete sequence under the invariant rule: the state of an arbitrary iteration is rebuilt from the
    invariant by the contract's `state` constructor, so the number of paths is linear in the sequence length even
    when every iteration forks"""
    from .contracts import eval_clause
    inv = spec["inv"]
    make_state = spec["state"]
    n = len(items)
    fr.env.vars["_items"] = tuple(items)
    ex.check(f"loop{ordinal}.inv_on_entry", eval_clause(ex, inv, _inv_env(fr, {"_i": 0, "_n": n})))
    which = ex.choose(2, tag=f"loop{ordinal}")
    if which == 1:
        k = ex.choose(n, tag=f"loop{ordinal}.iteration") if n else None
        if k is None:
            raise PathEnd()
        if k >= n:
            raise Unsupported("re-execution diverged: the iterated sequence changed between paths (shared state?)")
        try:
            st = make_state(ex, _inv_env(fr, {}), k)
        except (AttributeError, TypeError, KeyError, IndexError) as e:
            raise Unsupported(f"the loop contract (state constructor) does not fit the loop any more: {e!r}")
        fr.env.vars.update(st)
        ex.check(f"loop{ordinal}.state_satisfies_inv", eval_clause(ex, inv, _inv_env(fr, {"_i": k, "_n": n})))
        ex.assign(node.target, items[k], fr)
        n0 = len(sized) if sized is not None else None
        try:
            ex.exec_block(node.body, fr)
        except ContinueSig:
            pass
        except BreakSig:
            raise Unsupported("break inside a loop under the invariant rule")
        if sized is not None and len(sized) != n0:
            # the dict (view) being iterated changed size in the body: python raises at the next step of the loop
            from .interp import PyRaise
            raise PyRaise(RuntimeError("dictionary changed size during iteration"))
        ex.check(f"loop{ordinal}.inv_preserved", eval_clause(ex, inv, _inv_env(fr, {"_i": k + 1, "_n": n})))
        for cb in ex.path_end_hooks:       # ghost-state obligations of the scenario also hold after any iteration
            cb()
        raise PathEnd()
    try:
        st = make_state(ex, _inv_env(fr, {}), n)
    except (AttributeError, TypeError, KeyError, IndexError) as e:
        raise Unsupported(f"the loop contract (state constructor) does not fit the loop any more: {e!r}")
    fr.env.vars.update(st)
    ex.check(f"loop{ordinal}.state_satisfies_inv", eval_clause(ex, inv, _inv_env(fr, {"_i": n, "_n": n})))
    ex.exec_block(node.orelse, fr)
