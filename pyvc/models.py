"""Semantics of operators, builtins and stdlib calls on symbolic values, and call dispatch."""
from __future__ import annotations

import ast
import datetime as _dt
import enum
import io
import logging
import re
import string
import struct

import z3

from . import spec as _spec
from .interp import (Closure, BoundModel, PyRaise, Exec, Infeasible)
from .sbytes import SBytes, HexStr, ESeg, ASeg, format_hex, zt, norm, wrap
from .sym import (Sym, SInt, SBool, SFloat, SStr, SAny, SymLeak, Unsupported, is_sym, mk_int, mk_bool, iterm, bterm,
                  fterm, is_intlike, Flt, StrS, F_OF_INT, F_DIV, F_MUL, F_ADD, F_SUB, F_NEG, F_ABS, F_ROUND, F_ROUNDN,
                  F_TRUNC, F_UNPACK, F_LT, F_LE, B_XOR, B_AND, B_OR, B_SHL, CRCSTEP, CRCF, SUMF)


# ---- strings drawn from a finite set (labels, reason texts): integer ids ----------------------------------------
class SStrId(Sym):
    """a str-or-None value represented by the integer id of its (interned) text; id 0 is None"""
    __slots__ = ('t',)

    def __init__(self, t):
        self.t = t

    def __repr__(self):
        return f"SStrId({self.t})"


_intern = {None: 0}
_intern_rev = {0: None}


def intern_str(s):
    if s not in _intern:
        _intern[s] = len(_intern)
        _intern_rev[_intern[s]] = s
    return _intern[s]


def strid_value(i):
    return _intern_rev.get(i, f"<str#{i}>")


def lookup_term(ex, table, key, default=None):
    """table.get(key, default) for a symbolic integer key as an ite chain over the (concrete) table"""
    kt = iterm(key)
    vals = list(table.items())
    if all(isinstance(v, (str, type(None))) for _, v in vals) and isinstance(default, (str, type(None))):
        res = z3.IntVal(intern_str(default))
        for k, v in reversed(vals):
            res = z3.If(kt == int(k), z3.IntVal(intern_str(v)), res)
        return SStrId(z3.simplify(res))
    if all(isinstance(v, int) for _, v in vals) and isinstance(default, int):
        res = z3.IntVal(default)
        for k, v in reversed(vals):
            res = z3.If(kt == int(k), z3.IntVal(v), res)
        return mk_int(res)
    raise Unsupported("dict.get with symbolic key on a table of mixed value types")


def fresh_strid(ex, base="str"):
    return SStrId(z3.Int(ex._name(base)))


DT_VALID = z3.Function('DT_VALID', *([z3.IntSort()] * 7 + [z3.BoolSort()]))


class SDatetime(Sym):
    """datetime value given by its integer fields"""
    __slots__ = ('fields',)

    def __init__(self, fields):
        self.fields = fields

    def __repr__(self):
        return f"SDatetime{self.fields}"


class SymComp(Sym):
    """(elt for x in <bytes of symbolic length>): the element at one generic index j, 0 <= j < n"""
    __slots__ = ('j', 'n', 'elt')

    def __init__(self, j, n, elt):
        self.j = j
        self.n = n
        self.elt = elt


class Guarded(Sym):
    """list element that is present only under a condition (result of if-conversion of an append-only branch)"""
    __slots__ = ('cond', 'value')

    def __init__(self, cond, value):
        self.cond = cond
        self.value = value

    def __repr__(self):
        return f"Guarded({self.cond}, {self.value!r})"


class SJoin(Sym):
    """sep.join(items) where items may be present conditionally"""
    __slots__ = ('sep', 'items')

    def __init__(self, sep, items):
        self.sep = sep
        self.items = items       # [(cond term | True, str)]

    def __repr__(self):
        return f"SJoin({len(self.items)} items)"


def sjoin_eq(ex, a, b):
    """equality of two conditional joins over the same candidate strings (positionwise)"""
    if a.sep != b.sep:
        return False
    ia = [(c, v) for c, v in a.items]
    ib = [(c, v) for c, v in b.items]
    va, vb = [v for _, v in ia], [v for _, v in ib]
    if va != vb:
        # different candidate lists: the joins are equal iff both select the same sequence of strings.  With pairwise
        # distinct candidates in each list and the common ones in the same relative order that is: a common candidate
        # is selected by both or by neither, a candidate of only one list is not selected
        if (not all(isinstance(v, str) for v in va + vb) or len(set(va)) != len(va) or len(set(vb)) != len(vb)
                or [v for v in va if v in set(vb)] != [v for v in vb if v in set(va)]):
            raise Unsupported("comparison of conditional joins over different candidate lists")
        ca = {v: (z3.BoolVal(True) if c is True else c) for c, v in ia}
        cb = {v: (z3.BoolVal(True) if c is True else c) for c, v in ib}
        conj = []
        for v in va:
            conj.append(ca[v] == cb[v] if v in cb else z3.Not(ca[v]))
        for v in vb:
            if v not in ca:
                conj.append(z3.Not(cb[v]))
        return z3.simplify(z3.And(*conj)) if conj else True
    conj = []
    for (c1, _), (c2, _) in zip(ia, ib):
        t1 = z3.BoolVal(True) if c1 is True else c1
        t2 = z3.BoolVal(True) if c2 is True else c2
        conj.append(t1 == t2)
    return z3.simplify(z3.And(*conj)) if conj else True


# ---- operators ---------------------------------------------------------------------------------------------------
def _pow2(n):
    return n > 0 and n & (n - 1) == 0


def binop_sym(ex, op, a, b):
    # bytes / strings
    if isinstance(a, (SBytes, bytes, bytearray)) and isinstance(b, (SBytes, bytes, bytearray)) and op is ast.Add:
        return SBytes.of(a).concat(b)
    if isinstance(a, (HexStr, str)) and isinstance(b, (HexStr, str)) and op is ast.Add:
        if isinstance(a, str) and not _is_hex(a) or isinstance(b, str) and not _is_hex(b):
            return ex.fresh_str("concat")
        return HexStr.of(a).concat(b)
    if isinstance(a, (SStr, str, HexStr)) and isinstance(b, (SStr, str, HexStr)):
        if op is ast.Add:
            return ex.fresh_str("concat")
    if isinstance(a, str) and op is ast.Mod:
        return ex.fresh_str("fmt")
    if ex.bv_mode and is_intlike(a) and is_intlike(b):
        return _binop_bv(ex, op, a, b)
    if is_intlike(a) and is_intlike(b):
        return _binop_int(ex, op, a, b)
    if isinstance(a, (SFloat, float, int, SInt, SBool)) and isinstance(b, (SFloat, float, int, SInt, SBool)):
        fa, fb = fterm(a), fterm(b)
        if op is ast.Div:
            return SFloat(F_DIV(fa, fb))
        if op is ast.Mult:
            return SFloat(F_MUL(fa, fb))
        if op is ast.Add:
            return SFloat(F_ADD(fa, fb))
        if op is ast.Sub:
            return SFloat(F_SUB(fa, fb))
        raise Unsupported(f"float operator {op.__name__}")
    if isinstance(a, SAny) or isinstance(b, SAny):
        return ex.fresh_any("binop")
    raise Unsupported(f"operator {op.__name__} on {type(a).__name__}, {type(b).__name__}")


def _is_hex(s):
    return all(c in string.hexdigits for c in s)


def _binop_bv(ex, op, a, b):
    x, y = ex.bvterm(a), ex.bvterm(b)
    if op is ast.BitXor:
        return SInt(z3.simplify(x ^ y))
    if op is ast.BitAnd:
        return SInt(z3.simplify(x & y))
    if op is ast.BitOr:
        return SInt(z3.simplify(x | y))
    if op is ast.RShift:
        return SInt(z3.simplify(z3.LShR(x, y)))
    raise Unsupported(f"operator {op.__name__} in bit-vector mode (could overflow)")


def _div_const(x, c):
    """x div c for a positive constant c; (y div c1) div c2 == y div (c1*c2) for positive divisors"""
    x = z3.simplify(x)
    if z3.is_app_of(x, z3.Z3_OP_IDIV) and z3.is_int_value(x.arg(1)) and x.arg(1).as_long() > 0:
        return x.arg(0) / z3.IntVal(x.arg(1).as_long() * c)
    return x / z3.IntVal(c)


def _range_fact(ex, r, a, b):
    for w in (8, 16, 32):
        lim = 2 ** w
        if ex.known(z3.And(a >= 0, a < lim, b >= 0, b < lim)):
            ex.fact(z3.And(r >= 0, r < lim))
            return


def _binop_int(ex, op, a, b):
    x, y = iterm(a), iterm(b)
    if op is ast.Add:
        return mk_int(x + y)
    if op is ast.Sub:
        return mk_int(x - y)
    if op is ast.Mult:
        return mk_int(x * y)
    if op is ast.Div:
        if isinstance(b, int) and b == 0:
            ex.raise_builtin(ZeroDivisionError, "division by zero")
        return SFloat(F_DIV(fterm(a), fterm(b)))
    if op in (ast.FloorDiv, ast.Mod):
        if not (isinstance(b, int) and b > 0):
            if isinstance(b, int) and b == 0:
                ex.raise_builtin(ZeroDivisionError, "integer division or modulo by zero")
            raise Unsupported("// or % by a non-constant or negative divisor")
        return mk_int(_div_const(x, b)) if op is ast.FloorDiv else mk_int(x % y)
    if op is ast.LShift:
        if isinstance(b, int) and b >= 0:
            return mk_int(x * (2 ** b))
        if isinstance(b, int):
            ex.raise_builtin(ValueError, "negative shift count")
        # shift by a symbolic amount: uninterpreted (a refutation built on it must replay natively to count)
        if not ex.known(y >= 0):
            if ex.branch(y < 0, tag="shift.negative"):
                ex.raise_builtin(ValueError, "negative shift count")
        return mk_int(B_SHL(x, y))
    if op is ast.RShift:
        if isinstance(b, int) and b >= 0:
            return mk_int(_div_const(x, 2 ** b))
        raise Unsupported(">> by a symbolic amount")
    if op is ast.Pow:
        if isinstance(b, int) and 0 <= b <= 8:
            r = z3.IntVal(1)
            for _ in range(b):
                r = r * x
            return mk_int(r)
        raise Unsupported("** with symbolic exponent")
    if op is ast.BitAnd:
        for m, o in ((a, y), (b, x)):
            if isinstance(m, int) and m >= 0 and _pow2(m + 1):
                return mk_int(o % (m + 1))
        r = B_AND(x, y)
        _range_fact(ex, r, x, y)
        return mk_int(r)
    if op is ast.BitOr:
        r = B_OR(x, y)
        _range_fact(ex, r, x, y)
        return mk_int(r)
    if op is ast.BitXor:
        r = B_XOR(x, y)
        _range_fact(ex, r, x, y)
        return mk_int(r)
    raise Unsupported(f"integer operator {op.__name__}")


def compare_sym(ex, op, a, b):
    eqop = isinstance(op, (ast.Eq, ast.NotEq))

    def fin(t):
        if isinstance(op, ast.NotEq):
            return mk_bool(z3.Not(t)) if not isinstance(t, bool) else (not t)
        return mk_bool(t) if not isinstance(t, bool) else t

    if ex.bv_mode and is_intlike(a) and is_intlike(b):
        x, y = ex.bvterm(a), ex.bvterm(b)
        return mk_bool({ast.Eq: lambda: x == y, ast.NotEq: lambda: x != y, ast.Lt: lambda: z3.ULT(x, y),
                        ast.LtE: lambda: z3.ULE(x, y), ast.Gt: lambda: z3.UGT(x, y),
                        ast.GtE: lambda: z3.UGE(x, y)}[type(op)]())
    if is_intlike(a) and is_intlike(b):
        x, y = iterm(a), iterm(b)
        return mk_bool({ast.Eq: lambda: x == y, ast.NotEq: lambda: x != y, ast.Lt: lambda: x < y,
                        ast.LtE: lambda: x <= y, ast.Gt: lambda: x > y, ast.GtE: lambda: x >= y}[type(op)]())
    if a is None or b is None:
        other = b if a is None else a
        if isinstance(other, SAny):
            return fin(_cached_bool(ex, ('isnone', other.key)).t)
        if isinstance(other, SStrId) and eqop:
            return fin(other.t == 0)
        if eqop:
            return isinstance(op, ast.NotEq)
        raise PyRaise(TypeError("ordering comparison with None"))
    if isinstance(a, (SFloat, float)) or isinstance(b, (SFloat, float)):
        if isinstance(a, (SFloat, float, int, SInt, SBool)) and isinstance(b, (SFloat, float, int, SInt, SBool)):
            x, y = fterm(a), fterm(b)
            if eqop:
                return fin(x == y)
            return mk_bool({ast.Lt: lambda: F_LT(x, y), ast.LtE: lambda: F_LE(x, y), ast.Gt: lambda: F_LT(y, x),
                            ast.GtE: lambda: F_LE(y, x)}[type(op)]())
    if isinstance(a, SDatetime) and isinstance(b, SDatetime) and eqop:
        return fin(z3.simplify(z3.And(*[iterm(x) == iterm(y) for x, y in zip(a.fields, b.fields)])))
    if isinstance(a, SJoin) or isinstance(b, SJoin):
        if eqop:
            if isinstance(a, str):
                a = SJoin(b.sep, [(z3.BoolVal(False), v) for _, v in b.items]) if a == "" else a
            if isinstance(b, str):
                b = SJoin(a.sep, [(z3.BoolVal(False), v) for _, v in a.items]) if b == "" else b
            if isinstance(a, SJoin) and isinstance(b, SJoin):
                return fin(sjoin_eq(ex, a, b))
    if isinstance(a, SStrId) or isinstance(b, SStrId):
        if eqop:
            def sid(v):
                if isinstance(v, SStrId):
                    return v.t
                if isinstance(v, str) or v is None:
                    return z3.IntVal(intern_str(v))
                return None
            x, y = sid(a), sid(b)
            if x is not None and y is not None:
                return fin(x == y)
            if not isinstance(a, (SStr, HexStr)) and not isinstance(b, (SStr, HexStr)):
                return isinstance(op, ast.NotEq)
    if isinstance(a, (SBytes, bytes, bytearray)) and isinstance(b, (SBytes, bytes, bytearray)) and eqop:
        return fin(bytes_eq(ex, SBytes.of(a), SBytes.of(b)))
    if isinstance(a, (SStr, HexStr)) or isinstance(b, (SStr, HexStr)):
        if eqop:
            ka = a.key if isinstance(a, SStr) else repr(a)
            kb = b.key if isinstance(b, SStr) else repr(b)
            if ka == kb:
                return fin(True)
            return fin(_cached_bool(ex, ('streq',) + tuple(sorted((str(ka), str(kb))))).t)
    if isinstance(a, SAny) or isinstance(b, SAny):
        ka = a.key if isinstance(a, SAny) else repr(a)
        kb = b.key if isinstance(b, SAny) else repr(b)
        return fin(_cached_bool(ex, ('anycmp', type(op).__name__, str(ka), str(kb))).t) if eqop else \
            _cached_bool(ex, ('anycmp', type(op).__name__, str(ka), str(kb)))
    if eqop:
        # values of unrelated types are never equal
        if is_sym(a) and not is_sym(b) and not isinstance(b, (int, float, str, bytes, bytearray)):
            return isinstance(op, ast.NotEq)
        if is_sym(b) and not is_sym(a) and not isinstance(a, (int, float, str, bytes, bytearray)):
            return isinstance(op, ast.NotEq)
        if isinstance(a, (SInt, SBool)) and isinstance(b, str) or isinstance(b, (SInt, SBool)) and isinstance(a, str):
            return isinstance(op, ast.NotEq)
    raise Unsupported(f"comparison {type(op).__name__} of {type(a).__name__} and {type(b).__name__}")


def _cached_bool(ex, key):
    if key not in ex.str_facts:
        ex.str_facts[key] = ex.fresh_bool("p")
    return ex.str_facts[key]


def bytes_eq(ex, a, b):
    la, lb = a.length(), b.length()
    if isinstance(la, int) and isinstance(lb, int):
        if la != lb:
            return False
        conj = [iterm(a.elem_at(ex, i)) == iterm(b.elem_at(ex, i)) for i in range(la)]
        return z3.simplify(z3.And(*conj)) if conj else True
    # same view?
    if len(a.segs) == 1 and len(b.segs) == 1 and isinstance(a.segs[0], ASeg) and isinstance(b.segs[0], ASeg):
        sa, sb = a.segs[0], b.segs[0]
        if sa.arr.eq(sb.arr) and ex.known(z3.And(zt(sa.off) == zt(sb.off), zt(sa.ln) == zt(sb.ln))):
            return True
    mx = a.maxlen() if a.maxlen() is not None else b.maxlen()
    if mx is not None:
        x = z3.Int(ex._name("k"))
        # bounded: lengths equal and every position below the bound equal
        conj = [zt(la) == zt(lb)]
        for i in range(mx):
            conj.append(z3.Implies(zt(la) > i, iterm(a.elem_at(ex, i)) == iterm(b.elem_at(ex, i))))
        return z3.And(*conj)
    raise Unsupported("equality of byte strings of unbounded symbolic length (use same_bytes in specifications)")


def contains(ex, container, item):
    from .interp import _symkeyed, _MISSING
    if isinstance(container, dict) and _symkeyed(container, item):
        return ex.dict_find_key(container, item) is not _MISSING
    if isinstance(container, (tuple, list, set, frozenset, dict, range)) and isinstance(item, (SInt, SBool)):
        it = iterm(item)
        terms = []
        for c in container:
            if isinstance(c, bool) or isinstance(c, int):
                terms.append(it == int(c))
            elif isinstance(c, (SInt, SBool)):
                terms.append(it == iterm(c))
        return mk_bool(z3.Or(*terms)) if terms else False
    if isinstance(container, SStr):
        if isinstance(item, str):
            return _cached_bool(ex, ('substr', item, container.key))
        raise Unsupported("symbolic substring test")
    if isinstance(item, (SStr, SAny)):
        if isinstance(container, (dict, tuple, list, set)):
            if isinstance(item, SStr):
                return _cached_bool(ex, ('member', item.key, id(container)))
        raise Unsupported("membership of opaque value")
    if is_sym(item) or is_sym(container):
        if isinstance(container, (tuple, list)) and not is_sym(item):
            # concrete item in a sequence that may hold symbolic entries
            terms = []
            for c in container:
                if is_sym(c):
                    r = compare_sym(ex, ast.Eq(), c, item)
                    if isinstance(r, bool):
                        if r:
                            return True
                    else:
                        terms.append(r.t)
                elif c == item:
                    return True
            return mk_bool(z3.Or(*terms)) if terms else False
        raise Unsupported(f"'in' with {type(item).__name__} / {type(container).__name__}")
    try:
        return item in container
    except Exception as e:
        raise PyRaise(e)


def seq_index_sym(ex, seq, idx):
    n = len(seq)
    if ex.bv_mode:
        it = ex.bvterm(idx)
        if not ex.known(z3.ULT(it, z3.BitVecVal(n, 32))):
            raise Unsupported("sequence index not provably in range (bit-vector mode)")
        res = ex.bvterm(seq[-1])
        for k in range(n - 2, -1, -1):
            res = z3.If(it == z3.BitVecVal(k, 32), ex.bvterm(seq[k]), res)
        return SInt(res)
    it = iterm(idx)
    ok = z3.And(it >= -n, it < n)
    if not ex.spec_mode and not ex.known(ok):
        if ex.branch(z3.Not(ok), tag="IndexError"):
            ex.raise_builtin(IndexError, "sequence index out of range")
    if not all(isinstance(e, int) or isinstance(e, (SInt, SBool)) for e in seq):
        # fork over the index value
        k = ex.choose(n, tag="seqindex")
        ex.assume(mk_bool(z3.Or(it == k, it == k - n)))
        return seq[k]
    eff = it if ex.known(it >= 0) else z3.If(it < 0, it + n, it)
    res = iterm(seq[-1])
    for k in range(n - 2, -1, -1):
        res = z3.If(eff == k, iterm(seq[k]), res)
    return mk_int(res)


def dict_getitem_sym(ex, d, key):
    if isinstance(key, (SInt, SBool)):
        keys = [k for k in d if isinstance(k, int)]
        for kk in keys:
            # branch() only follows the feasible sides, so a key pinned by the path condition does not fork
            if ex.branch(iterm(key) == int(kk), tag="dictkey"):
                return d[kk]
        raise PyRaise(KeyError(key))
    raise Unsupported("dict lookup with opaque key")


# ---- strings -----------------------------------------------------------------------------------------------------
_HEXSPEC = re.compile(r"^0(\d+)[xX]$")


def format_value(ex, val, spec, conversion=-1):
    if not is_sym(val):
        try:
            if conversion == ord('r'):
                val = repr(val)
            elif conversion == ord('s'):
                val = str(val)
            return format(val, spec or "")
        except SymLeak:
            return ex.fresh_str("fmt")
        except Exception as e:
            raise PyRaise(e)
    if isinstance(val, (SInt, SBool)) and spec:
        m = _HEXSPEC.match(spec)
        if m:
            return format_hex(ex, val, int(m.group(1)))
    if isinstance(val, HexStr) and not spec:
        return val
    return ex.fresh_str("fmt")


def join_str_parts(ex, parts):
    if all(isinstance(p, str) for p in parts):
        return "".join(parts)
    if any(isinstance(p, SStr) for p in parts):
        return ex.fresh_str("str")
    if all(isinstance(p, HexStr) or (isinstance(p, str) and _is_hex(p)) for p in parts):
        out = HexStr([])
        for p in parts:
            out = out.concat(p)
        return out
    return ex.fresh_str("str")


def str_format(ex, fmt, *args, **kw):
    if not isinstance(fmt, str):
        return ex.fresh_str("fmt")
    parts = []
    auto = 0
    for lit, field, spec, conv in string.Formatter().parse(fmt):
        if lit:
            parts.append(lit)
        if field is None:
            continue
        if field == "":
            v = args[auto]
            auto += 1
        elif field.isdigit():
            v = args[int(field)]
        else:
            v = kw[field]
        parts.append(format_value(ex, v, spec or None, ord(conv) if conv else -1))
    return join_str_parts(ex, parts)


def sym_getattr(ex, obj, name):
    key = (type(obj), name)
    if key in SYM_METHODS:
        return BoundModel(SYM_METHODS[key], obj, name)
    if isinstance(obj, SDatetime):
        names = ("year", "month", "day", "hour", "minute", "second", "microsecond")
        if name in names:
            return obj.fields[names.index(name)]
    if isinstance(obj, SStr):
        if name in ("rstrip", "strip", "lstrip", "replace", "lower", "upper", "hex"):
            return BoundModel(lambda ex, s, *a, **k: ex.fresh_str(name), obj, name)
        if name in ("startswith", "endswith"):
            return BoundModel(lambda ex, s, *a, **k: _cached_bool(ex, (name, s.key, a)), obj, name)
    raise Unsupported(f"attribute {name} of symbolic {type(obj).__name__}")


def _sb_hex(ex, b):
    return HexStr([('hex', b)])


def _sb_decode(ex, b, encoding="utf-8", errors="strict"):
    # any byte >= 0x80 makes ascii decoding fail; both outcomes are explored
    n = b.length()
    if isinstance(n, int) and n == 0:
        return ""
    if encoding in ("ascii", "utf-8", "utf8"):
        if ex.choose(2, tag="decode") == 1:
            # some byte is >= 0x80 (not asserted: constraints over a symbolic index made later queries unstable;
            # exploring the failure unconditionally is an over-approximation, sound for "nothing else escapes")
            raise PyRaise(UnicodeDecodeError(encoding, b"", 0, 1, "ordinal not in range"))
    elif encoding in ("utf-16be", "utf-16-be"):
        if ex.choose(2, tag="decode") == 1:
            raise PyRaise(UnicodeDecodeError(encoding, b"", 0, 1, "illegal encoding"))
    else:
        raise Unsupported(f"decode({encoding})")
    return ex.fresh_str("decoded")


def _sb_append(ex, b, v):
    b.append(ex, v)


def _sb_extend(ex, b, other):
    b.extend(ex, other)


def _sint_to_bytes(ex, v, length=1, byteorder="big", signed=False):
    return int_to_bytes(ex, v, length, byteorder, signed=signed)


def int_to_bytes(ex, v, length=1, byteorder="big", *, signed=False):
    if not isinstance(length, int):
        raise Unsupported("to_bytes with symbolic length")
    if not is_intlike(v):
        raise PyRaise(TypeError("to_bytes of non-int"))
    if not is_sym(v):
        try:
            return SBytes.of(int(v).to_bytes(length, byteorder, signed=signed))
        except Exception as e:
            raise PyRaise(e)
    t = iterm(v)
    lo, hi = (-(256 ** length) // 2, 256 ** length // 2 - 1) if signed else (0, 256 ** length - 1)
    ok = z3.And(t >= lo, t <= hi)
    if not ex.known(ok):
        if ex.branch(z3.Not(ok), tag="OverflowError"):
            ex.raise_builtin(OverflowError, "int too big to convert")
    u = z3.If(t < 0, t + 256 ** length, t) if signed else t
    els = [mk_int((u / z3.IntVal(256 ** k)) % 256) for k in range(length - 1, -1, -1)]
    if byteorder == "little":
        els = els[::-1]
    return SBytes([ESeg(els)], False)


def int_from_bytes(ex, b, byteorder="big", *, signed=False):
    if isinstance(b, (bytes, bytearray)):
        return int.from_bytes(b, byteorder, signed=signed)
    if not isinstance(b, SBytes):
        raise Unsupported(f"int.from_bytes of {type(b).__name__}")
    return b.from_bytes(ex, signed, byteorder)


def bytes_fromhex(ex, s):
    if isinstance(s, str):
        try:
            return bytes.fromhex(s)
        except Exception as e:
            raise PyRaise(e)
    if isinstance(s, HexStr):
        return s.to_bytes(ex)
    raise Unsupported(f"bytes.fromhex of {type(s).__name__}")


def _sint_bit_length(ex, v):
    """int.bit_length(): the number of bits of abs(v); decided by forking over the feasible values (<= 64 bits)"""
    t = iterm(v)
    a = z3.If(t >= 0, t, -t)
    for k in range(0, 65):
        lo = 0 if k == 0 else (1 << (k - 1))
        hi = 1 << k
        cond = (a == 0) if k == 0 else z3.And(a >= lo, a < hi)
        if ex.branch(cond, tag="bit_length"):
            return k
    raise Unsupported("bit_length of an integer of more than 64 bits")


def _sb_lstrip(ex, b, chars=None):
    """bytes.lstrip(chars): drops leading bytes while they are members of `chars` (a set of byte values, not a prefix);
    the number dropped is decided by forking, up to 16"""
    if chars is None:
        chars = b" \t\n\r\x0b\x0c"
    if is_sym(chars):
        raise Unsupported("lstrip with symbolic character set")
    members = sorted(set(bytes(chars)))
    n = b.length()
    k = 0
    while True:
        if k > 16:
            raise Unsupported("lstrip of more than 16 leading bytes")
        at_end = (k >= n) if isinstance(n, int) else ex.branch(zt(n) <= k, tag="lstrip.end")
        if at_end:
            break
        e = b.elem_at(ex, k)
        if isinstance(e, int):
            if e not in members:
                break
        elif not ex.branch(z3.Or(*[iterm(e) == m for m in members]) if members else z3.BoolVal(False), tag="lstrip.member"):
            break
        k += 1
    return b.slice(ex, k, None)


def _sb_affix(ex, b, affix, start):
    if is_sym(affix):
        raise Unsupported("startswith / endswith with a symbolic affix")
    if isinstance(affix, tuple):
        rs = [_sb_affix(ex, b, a, start) for a in affix]
        if any(r is True for r in rs):
            return True
        ts = [r.t for r in rs if not isinstance(r, bool)]
        return mk_bool(z3.Or(*ts)) if ts else False
    affix = bytes(affix)
    k = len(affix)
    if k == 0:
        return True
    n = b.length()
    if isinstance(n, int) and n < k:
        return False
    conj = [] if isinstance(n, int) else [zt(n) >= k]
    for i, c in enumerate(affix):
        idx = i if start else (n - k + i if isinstance(n, int) else norm(zt(n) - k + i))
        e = b.elem_at(ex, idx)
        if isinstance(e, int):
            if e != c:
                return False
        else:
            conj.append(iterm(e) == c)
    return mk_bool(z3.And(*conj)) if conj else True


def _sb_count(ex, b, x, *rest):
    if rest or is_sym(x):
        raise Unsupported("bytes.count with bounds or a symbolic argument")
    if isinstance(x, (bytes, bytearray)):
        if len(x) != 1:
            raise Unsupported("bytes.count of a multi-byte pattern")
        x = x[0]
    n = b.length()
    if not isinstance(n, int):
        raise Unsupported("bytes.count on a byte string of symbolic length")
    total, terms = 0, []
    for i in range(n):
        e = b.elem_at(ex, i)
        if isinstance(e, int):
            total += int(e == x)
        else:
            terms.append(z3.If(iterm(e) == x, 1, 0))
    return mk_int(z3.IntVal(total) + z3.Sum(*terms)) if terms else total


def _sb_just(ex, b, width, fill=b" ", left=True):
    if is_sym(width) or is_sym(fill):
        raise Unsupported("ljust / rjust with symbolic width or fill")
    n = b.length()
    if not isinstance(n, int):
        if ex.branch(zt(n) >= width, tag="just.long"):
            return b
        for k in range(width):
            if ex.branch(zt(n) == k, tag="just.len"):
                n = k
                break
        else:
            raise Infeasible()
        b = b.slice(ex, 0, n)
    if n >= width:
        return b
    pad = SBytes.of(bytes(fill) * (width - n))
    return b.concat(pad) if left else pad.concat(b)


SYM_METHODS = {
    (SBytes, "startswith"): lambda ex, b, a, *r: _sb_affix(ex, b, a, True),
    (SBytes, "endswith"): lambda ex, b, a, *r: _sb_affix(ex, b, a, False),
    (SBytes, "count"): _sb_count,
    (SBytes, "ljust"): lambda ex, b, w, f=b" ": _sb_just(ex, b, w, f, True),
    (SBytes, "rjust"): lambda ex, b, w, f=b" ": _sb_just(ex, b, w, f, False),
    (SBytes, "lstrip"): _sb_lstrip,
    (SInt, "bit_length"): _sint_bit_length,
    (SBytes, "hex"): _sb_hex,
    (SBytes, "decode"): _sb_decode,
    (SBytes, "append"): _sb_append,
    (SBytes, "extend"): _sb_extend,
    (SInt, "to_bytes"): _sint_to_bytes,
    (HexStr, "format"): lambda ex, s, *a, **k: ex.fresh_str("fmt"),
}


# ---- BytesIO -------------------------------------------------------------------------------------------------------
class MBytesIO:
    """io.BytesIO over a (possibly symbolic) byte string: position, clamped short reads, seek(negative) raises"""
    _pyvc_model = True

    def __init__(self, data):
        self.data = SBytes.of(data) if not isinstance(data, SBytes) else data
        self.pos = 0

    def seek(self, pos, whence=0):
        ex = _cur()
        if whence != 0:
            raise Unsupported("seek whence")
        if isinstance(pos, int):
            if pos < 0:
                ex.raise_builtin(ValueError, f"negative seek value {pos}")
        elif isinstance(pos, (SInt, SBool)):
            t = iterm(pos)
            if not ex.known(t >= 0):
                if ex.branch(t < 0, tag="seek.negative"):
                    ex.raise_builtin(ValueError, "negative seek value")
        else:
            raise PyRaise(TypeError("seek position must be int"))
        self.pos = pos
        ex.events.append(('seek', pos))
        return pos

    def read(self, size=-1):
        ex = _cur()
        if not isinstance(size, int) or size < 0:
            raise Unsupported("read() without a concrete non-negative size")
        out = self.data.slice(ex, self.pos, _add(self.pos, size), maxn=size)
        ex.events.append(('read', self.pos, size, out.blen()))
        self.pos = _add(self.pos, out.blen())
        return out

    def tell(self):
        return self.pos


def _add(a, b):
    if isinstance(a, int) and isinstance(b, int):
        return a + b
    return mk_int(iterm(a) + iterm(b))


def _cur():
    from . import interp
    return interp.current()


# ---- builtin functions ---------------------------------------------------------------------------------------------
def m_len(ex, x):
    if isinstance(x, SBytes):
        return x.blen()
    if isinstance(x, SStr):
        return x.length if x.length is not None else ex.fresh_int("len")
    if is_sym(x):
        raise Unsupported(f"len of {type(x).__name__}")
    if hasattr(type(x), '_pyvc_len'):
        return x._pyvc_len(ex)
    try:
        return len(x)
    except Exception as e:
        raise PyRaise(e)


def m_int(ex, x=0, base=None):
    if base is not None:
        if is_sym(x):
            if isinstance(x, (SStr, HexStr)):
                return _str_to_int(ex, x, base)
            raise Unsupported("int(x, base)")
        try:
            return int(x, base)
        except Exception as e:
            raise PyRaise(e)
    if isinstance(x, SInt):
        return x
    if isinstance(x, SBool):
        return mk_int(iterm(x))
    if isinstance(x, SFloat):
        _float_to_int_may_raise(ex, x)
        return mk_int(F_TRUNC(x.t))
    if isinstance(x, (SStr, HexStr)):
        return _str_to_int(ex, x, 10)
    if isinstance(x, SAny):
        return _any_to_int(ex, x)
    if is_sym(x):
        raise PyRaise(TypeError(f"int() argument {type(x).__name__}"))
    try:
        return int(x)
    except Exception as e:
        raise PyRaise(e)


def _str_to_int(ex, s, base):
    key = ('int', getattr(s, 'key', repr(s)), base)
    if ex.choose(2, tag="int(str)") == 1:
        raise PyRaise(ValueError("invalid literal for int()"))
    if key not in ex.str_facts:
        ex.str_facts[key] = ex.fresh_int("strint")
    return ex.str_facts[key]


def _any_to_int(ex, x):
    k = ex.choose(3, tag="int(any)")
    if k == 1:
        raise PyRaise(ValueError("invalid literal for int()"))
    if k == 2:
        raise PyRaise(TypeError("int() argument must be a string or a number"))
    key = ('int', x.key)
    if key not in ex.str_facts:
        ex.str_facts[key] = ex.fresh_int("anyint")
    return ex.str_facts[key]


def m_float(ex, x=0.0):
    if isinstance(x, SFloat):
        return x
    if isinstance(x, (SInt, SBool)):
        return SFloat(F_OF_INT(iterm(x)))
    if isinstance(x, SAny):
        k = ex.choose(3, tag="float(any)")
        if k == 1:
            raise PyRaise(ValueError("could not convert to float"))
        if k == 2:
            raise PyRaise(TypeError("float() argument must be a string or a real number"))
        key = ('float', x.key)
        if key not in ex.str_facts:
            ex.str_facts[key] = ex.fresh_float("anyfloat")
        return ex.str_facts[key]
    if is_sym(x):
        raise Unsupported(f"float of {type(x).__name__}")
    try:
        return float(x)
    except Exception as e:
        raise PyRaise(e)


def _finite(t):
    """syntactic sufficient condition for a Flt term to denote a finite number (not inf / nan)"""
    if z3.is_app(t):
        name = t.decl().name()
        if name == "f_of_int" or name.startswith("fconst_"):
            return True
        if name in ("f_div", "f_mul", "f_add", "f_sub", "f_neg", "f_abs", "f_roundn"):
            return all(_finite(a) for a in t.children() if a.sort() == Flt)
        if name == "if":
            return _finite(t.arg(1)) and _finite(t.arg(2))
    return False


def _float_to_int_may_raise(ex, x):
    """int(x) / round(x) of inf raises OverflowError, of nan ValueError (CPython)"""
    if not _finite(x.t):
        k = ex.choose(3, tag="float.special")
        if k == 1:
            raise PyRaise(OverflowError("cannot convert float infinity to integer"))
        if k == 2:
            raise PyRaise(ValueError("cannot convert float NaN to integer"))


def m_round(ex, x, nd=None):
    if isinstance(x, SFloat):
        if nd is None:
            _float_to_int_may_raise(ex, x)
            return mk_int(F_ROUND(x.t))
        return SFloat(F_ROUNDN(x.t, iterm(nd)))
    if isinstance(x, (SInt, SBool)):
        return mk_int(iterm(x))
    if is_sym(x):
        raise Unsupported("round")
    return round(x) if nd is None else round(x, nd)


def m_abs(ex, x):
    if isinstance(x, (SInt, SBool)):
        t = iterm(x)
        return mk_int(z3.If(t < 0, -t, t))
    if isinstance(x, SFloat):
        return SFloat(F_ABS(x.t))
    if is_sym(x):
        raise Unsupported("abs")
    return abs(x)


def m_minmax(is_max):
    def f(ex, *args, **kw):
        if kw:
            raise Unsupported("min/max with key")
        vals = list(args[0]) if len(args) == 1 else list(args)
        if not any(is_sym(v) for v in vals):
            return (max if is_max else min)(vals)
        if not all(is_intlike(v) for v in vals):
            raise Unsupported("min/max over non-integers")
        acc = iterm(vals[0])
        for v in vals[1:]:
            t = iterm(v)
            acc = z3.If(t > acc, t, acc) if is_max else z3.If(t < acc, t, acc)
        return mk_int(acc)
    return f


_TYPEMAP = {SJoin: (str,), SInt: (int,), SBool: (bool, int), SFloat: (float,), SStr: (str,), HexStr: (str,), SStrId: (str,)}


def m_isinstance(ex, v, t):
    if not is_sym(v):
        if hasattr(type(v), '_pyvc_isinstance'):
            return v._pyvc_isinstance(ex, t)
        return isinstance(v, t)
    ts = t if isinstance(t, tuple) else (t,)
    if isinstance(v, SBytes):
        mine = (bytearray,) if v.mutable else (bytes,)
    elif isinstance(v, SAny):
        return _cached_bool(ex, ('isinstance', v.key, str(ts)))
    else:
        mine = _TYPEMAP.get(type(v), ())
    return any(issubclass(m, x) for m in mine for x in ts)


def m_bytes(ex, x=b"", *a):
    if isinstance(x, SBytes):
        if x.is_concrete():
            return bytes(x.to_bytes())
        return x.copy(False)
    if isinstance(x, (list, tuple)):
        if any(is_sym(e) for e in x):
            for e in x:
                ex.check_byte_range(e)
            return SBytes([ESeg(list(x))], False)
    if is_sym(x):
        raise Unsupported(f"bytes({type(x).__name__})")
    try:
        return bytes(x, *a)
    except Exception as e:
        raise PyRaise(e)


def m_bytearray(ex, x=b"", *a):
    if isinstance(x, SBytes):
        r = x.copy(True)
        if isinstance(r.length(), int):
            r._explode(ex)
        return r
    if isinstance(x, int):
        if x < 0:
            ex.raise_builtin(ValueError, "negative count")
        return SBytes([ESeg([0] * x)], True)
    if is_sym(x):
        raise Unsupported(f"bytearray({type(x).__name__})")
    try:
        return SBytes.of(bytearray(x, *a), True)
    except Exception as e:
        raise PyRaise(e)


def m_str(ex, x=""):
    if isinstance(x, (SStr, HexStr)):
        return x
    if is_sym(x):
        return ex.fresh_str("str")
    try:
        return str(x)
    except SymLeak:
        return ex.fresh_str("str")


def m_bool(ex, x=False):
    return ex.truth_value(x)


def _quant(ex, xs, is_any):
    """any()/all() over a generator of symbolic length: a fresh boolean tied to the generic element (sound in both
    directions for the one skolem index; nothing more is claimed)"""
    p = ex.truth_value(xs.elt)
    pt = bterm(p) if isinstance(p, (bool, SBool)) else None
    b = ex.fresh_bool("any" if is_any else "all")
    j, n = iterm(xs.j), iterm(xs.n)
    inr = z3.And(j >= 0, j < n)
    if is_any:
        ex.fact(z3.Implies(b.t, z3.And(inr, pt)))
        ex.fact(z3.Implies(z3.Not(b.t), z3.Implies(inr, z3.Not(pt))))
    else:
        ex.fact(z3.Implies(b.t, z3.Implies(inr, pt)))
        ex.fact(z3.Implies(z3.Not(b.t), z3.And(inr, z3.Not(pt))))
    return b


def m_any(ex, xs):
    if isinstance(xs, SymComp):
        return _quant(ex, xs, True)
    terms = []
    for x in xs:
        t = ex.truth_value(x)
        if isinstance(t, bool):
            if t:
                return True
        else:
            terms.append(t.t)
    return mk_bool(z3.Or(*terms)) if terms else False


def m_all(ex, xs):
    if isinstance(xs, SymComp):
        return _quant(ex, xs, False)
    terms = []
    for x in xs:
        t = ex.truth_value(x)
        if isinstance(t, bool):
            if not t:
                return False
        else:
            terms.append(t.t)
    return mk_bool(z3.And(*terms)) if terms else True


def m_sum(ex, xs, start=0):
    if isinstance(xs, SBytes):
        return mk_int(iterm(_s_sum(ex, xs)) + iterm(start))
    items = ex.iterate(xs)
    acc = start
    for it in items:
        acc = ex.binop(ast.Add, acc, it)
    return acc


def m_tuple(ex, x=()):
    if isinstance(x, SBytes):
        return tuple(x.elems(ex))
    return tuple(ex.iterate(x))


def m_list(ex, x=()):
    if isinstance(x, SBytes):
        return list(x.elems(ex))
    return list(ex.iterate(x))


def m_bin(ex, x):
    if is_sym(x):
        raise Unsupported("bin() of a symbolic integer (string building; decided by exhaustive evaluation instead)")
    return bin(x)


def m_datetime(ex, *args, **kw):
    vals = list(args) + list(kw.values())
    if not any(is_sym(v) for v in vals):
        try:
            return _dt.datetime(*args, **kw)
        except Exception as e:
            raise PyRaise(e)
    # assumption A4: on integer fields datetime() either returns or raises ValueError; which of the two is a
    # function of the field values (uninterpreted predicate DT_VALID), so equal fields behave equally
    names = ("year", "month", "day", "hour", "minute", "second", "microsecond")
    fields = dict(zip(names, args))
    fields.update(kw)
    if any(not is_intlike(fields.get(n, 0)) for n in names):
        raise Unsupported("datetime() with non-integer symbolic fields")
    terms = [iterm(fields.get(n, 0)) for n in names]
    if ex.branch(z3.Not(DT_VALID(*terms)), tag="datetime.invalid"):
        raise PyRaise(ValueError("date value out of range"))
    d = SDatetime(tuple(fields.get(n, 0) for n in names))
    ex.events.append(('datetime', tuple(args), dict(kw), d))
    return d


def m_unpack(ex, fmt, data):
    if isinstance(data, SBytes) and fmt == '>f':
        n = data.length()
        if not (isinstance(n, int) and n == 4):
            if not ex.known(zt(n) == 4):
                raise Unsupported("struct.unpack('>f') on a buffer whose length is not provably 4")
        word = iterm(SBytes([ASeg(data.segs[0].arr, data.segs[0].off, 4)] if (
            len(data.segs) == 1 and isinstance(data.segs[0], ASeg)) else data.segs)._from_bytes_n(ex, 4, False, "big"))
        return (SFloat(F_UNPACK(word)),)
    if isinstance(data, SBytes) and isinstance(fmt, str) and fmt[:1] in "<>!" and re.fullmatch(r"[<>!](\d*[bBhHiIlLqQx])+", fmt):
        # fixed-size integer fields in standard layout: the buffer must have exactly calcsize(fmt) bytes
        total = struct.calcsize(fmt)
        n = data.length()
        if isinstance(n, int):
            short = n != total
        else:
            short = ex.branch(zt(n) != total, tag="unpack.size")
        if short:
            raise PyRaise(struct.error(f"unpack requires a buffer of {total} bytes"))
        order = "little" if fmt[0] == "<" else "big"
        out, pos = [], 0
        for cnt, code in re.findall(r"(\d*)([bBhHiIlLqQx])", fmt[1:]):
            size = struct.calcsize(fmt[0] + code)
            for _ in range(int(cnt) if cnt else 1):
                if code != "x":
                    out.append(int_from_bytes(ex, data.slice(ex, pos, pos + size), order, signed=code.islower()))
                pos += size
        return tuple(out)
    if is_sym(data):
        raise Unsupported("struct.unpack")
    try:
        return struct.unpack(fmt, data)
    except Exception as e:
        raise PyRaise(e)


def m_bytesio(ex, data=b""):
    return ex.new_object(MBytesIO(data))


def m_dict_get(ex, d, key, default=None):
    from .interp import _symkeyed, _MISSING
    if isinstance(d, dict) and _symkeyed(d, key):
        k = ex.dict_find_key(d, key)
        return default if k is _MISSING else d[k]
    if isinstance(key, (SInt, SBool)):
        if all(isinstance(k, int) for k in d):
            return lookup_term(ex, d, key, default)
        raise Unsupported("dict.get with symbolic key on a non-integer table")
    if isinstance(key, SAny):
        return ex.fresh_any("lookup")
    if is_sym(key):
        raise Unsupported(f"dict.get with {type(key).__name__} key")
    return d.get(key, default)


def m_join(ex, sep, items):
    items = ex.iterate(items)
    if any(isinstance(i, Guarded) for i in items) and all(
            isinstance(i, str) or (isinstance(i, Guarded) and isinstance(i.value, str)) for i in items):
        return SJoin(sep, [(True, i) if isinstance(i, str) else (i.cond, i.value) for i in items])
    if any(is_sym(i) for i in items):
        return ex.fresh_str("join")
    return sep.join(items)


def m_print(ex, *a, **k):
    return None


FUNC_MODELS = {
    len: m_len, int: m_int, float: m_float, round: m_round, abs: m_abs, max: m_minmax(True), min: m_minmax(False),
    isinstance: m_isinstance, bytes: m_bytes, bytearray: m_bytearray, str: m_str, bool: m_bool, any: m_any, all: m_all,
    tuple: m_tuple, list: m_list, bin: m_bin, sum: m_sum, print: m_print, io.BytesIO: m_bytesio, struct.unpack: m_unpack,
    _dt.datetime: m_datetime,
}
ALWAYS_MODEL = {bytearray, io.BytesIO, any, all, isinstance, bool, len}

METHOD_MODELS = {
    (int, "from_bytes"): int_from_bytes,
    (bytes, "fromhex"): bytes_fromhex,
}
DESCRIPTOR_MODELS = {}      # filled below: unbound method descriptors


def _init_descriptors():
    DESCRIPTOR_MODELS[int.to_bytes] = int_to_bytes
    DESCRIPTOR_MODELS[str.format] = str_format
    DESCRIPTOR_MODELS[dict.get] = m_dict_get
    DESCRIPTOR_MODELS[str.join] = m_join


_init_descriptors()

# native callables that only move values around (never inspect them)
TRANSPARENT = {tuple, list, dict, zip, enumerate, reversed, id, type, iter, next, sorted}
TRANSPARENT_METHODS = {(dict, "update"), (dict, "values"), (dict, "items"), (dict, "keys"), (dict, "pop"),
                       (dict, "setdefault"), (dict, "copy"), (list, "append"), (list, "extend"), (list, "pop"),
                       (list, "copy"), (list, "insert"), (set, "add"), (set, "update")}


MUTATORS = {"update", "pop", "setdefault", "append", "extend", "insert", "add", "remove", "clear", "popitem", "discard",
            "sort", "reverse"}


def _has_sym(x, depth=2):
    if isinstance(x, Sym):
        return True
    if depth and isinstance(x, (tuple, list)):
        return any(_has_sym(e, depth - 1) for e in x)
    if depth and isinstance(x, dict):
        return any(_has_sym(e, depth - 1) for e in x.values())
    return False


def dispatch_call(ex, fn, args, kw):
    from . import contracts, aio
    if isinstance(fn, Closure):
        return call_closure(ex, fn, args, kw)
    if isinstance(fn, BoundModel):
        return fn.fn(ex, fn.selfv, *args, **kw)
    selfobj = getattr(fn, "__self__", None)
    # models of ghost objects and of the specification vocabulary
    sp = getattr(fn, "_pyvc_sym", None)
    if sp is not None:
        return sp(ex, *args, **kw)
    if selfobj is not None and getattr(type(selfobj), "_pyvc_model", False):
        return fn(*args, **kw)
    if getattr(fn, "_pyvc_model", False):
        return fn(*args, **kw)
    if isinstance(selfobj, dict) and args and getattr(fn, "__name__", "") in (
            "get", "pop", "setdefault", "__getitem__", "__contains__"):
        # keys that are sequences with symbolic members (in the dict or as the argument) cannot go through python's
        # hashing: resolve the key element-wise first
        from .interp import _symkeyed, _MISSING
        if _symkeyed(selfobj, args[0]):
            k = ex.dict_find_key(selfobj, args[0])
            name = fn.__name__
            if name == "get":
                return (args[1] if len(args) > 1 else kw.get("default")) if k is _MISSING else selfobj[k]
            if name == "__contains__":
                return k is not _MISSING
            if name == "__getitem__":
                if k is _MISSING:
                    raise PyRaise(KeyError(args[0]))
                return selfobj[k]
            if k is not _MISSING:
                args = [k] + list(args[1:])
    symbolic = _has_sym(args) or _has_sym(list(kw.values())) or isinstance(selfobj, Sym)
    # logging: argument expressions were evaluated, the effect is dropped
    if isinstance(selfobj, logging.Logger):
        return None
    try:
        hash(fn)
        hashable = True
    except Exception:      # noqa
        hashable = False
    if hashable:
        m = FUNC_MODELS.get(fn)
        if m is not None and (symbolic or fn in ALWAYS_MODEL):
            return m(ex, *args, **kw)
        m = DESCRIPTOR_MODELS.get(fn)
        if m is not None and symbolic:
            return m(ex, *args, **kw)
    if selfobj is not None and hasattr(fn, "__name__"):
        owner = selfobj if isinstance(selfobj, type) else type(selfobj)
        m = None
        for base in owner.__mro__:
            m = METHOD_MODELS.get((base, fn.__name__))
            if m:
                break
        if m is not None and (symbolic or isinstance(selfobj, type) and fn.__name__ == "fromhex" and symbolic):
            return m(ex, *args, **kw)
        if symbolic and not isinstance(selfobj, type):
            for base in owner.__mro__:
                d = base.__dict__.get(fn.__name__)
                if d is not None and DESCRIPTOR_MODELS.get(d) is not None and not _sym_only_in_transparent(base, fn):
                    return DESCRIPTOR_MODELS[d](ex, selfobj, *args, **kw)
    # code under verification (goodwe) and sidecar specification functions
    info = ex.world.funcinfo(fn)
    if info is not None:
        return call_info(ex, info, fn, args, kw)
    r = aio.maybe_model(ex, fn, args, kw)
    if r is not aio.NOT_MODELLED:
        return r
    if isinstance(fn, type):
        return instantiate(ex, fn, args, kw)
    if symbolic:
        ok = False
        if hashable and fn in TRANSPARENT:
            ok = True
        if selfobj is not None and hasattr(fn, "__name__"):
            owner = type(selfobj)
            if any((b, fn.__name__) in TRANSPARENT_METHODS for b in owner.__mro__):
                ok = not (args and fn.__name__ in ("pop", "setdefault", "insert") and is_sym(args[0]))
        if not ok:
            raise Unsupported(f"native call {getattr(fn, '__qualname__', fn)!r} with symbolic arguments")
    ex.native_calls += 1
    if selfobj is not None and isinstance(selfobj, (dict, list, set)) and not ex.is_fresh(selfobj) \
            and getattr(fn, "__name__", "") in MUTATORS:
        ex.writes.append((selfobj, ("call", fn.__name__)))
        ex.undo_container_snapshot(selfobj)
    try:
        return fn(*args, **kw)
    except (SymLeak, Unsupported, PyRaise):
        raise
    except Exception as e:
        from .interp import PathEnd, Infeasible, ReturnSig, BreakSig, ContinueSig, Budget
        if isinstance(e, (PathEnd, Infeasible, ReturnSig, BreakSig, ContinueSig, Budget)):
            raise
        raise PyRaise(e)


def _sym_only_in_transparent(base, fn):
    return (base, fn.__name__) in TRANSPARENT_METHODS


def call_closure(ex, clo, args, kw):
    node = clo.info.node
    bound = ex.bind_args(node.args, clo.defaults, clo.kwdefaults, args, kw, clo.__name__)
    if clo.info.is_async:
        from . import aio
        return aio.Coro(ex, clo.info, bound, clo.globs, clo.cls, clo.env, None, None)
    return ex.run_function(clo.info, bound, clo.globs, clo.cls, clo.env)


def defining_class(ex, info, fn):
    if not info.clsname:
        return None
    f = getattr(fn, "__func__", fn)
    mod = ex.world.modules.get(info.modname)
    obj = mod
    parts = info.qualname.split(".")[:-1]
    try:
        for p in parts:
            if p == "<locals>":
                return None
            obj = obj.__dict__[p] if isinstance(obj, type) else getattr(obj, p)
    except (KeyError, AttributeError):
        return None
    return obj if isinstance(obj, type) else None


def call_info(ex, info, fn, args, kw):
    """call of a function whose source is in the index (goodwe or sidecar)"""
    from . import contracts, aio
    f = getattr(fn, "__func__", fn)
    selfobj = getattr(fn, "__self__", None)
    if selfobj is not None:
        args = [selfobj] + list(args)
    node = info.node
    defaults = list(f.__defaults__ or ())
    kwdefaults = dict(f.__kwdefaults__ or {})
    bound = ex.bind_args(node.args, defaults, kwdefaults, args, kw, info.qualname)
    cls = defining_class(ex, info, fn)
    closure_env = None
    if f.__closure__:
        from .interp import Env
        closure_env = Env(None)
        for name, cell in zip(f.__code__.co_freevars, f.__closure__):
            try:
                closure_env.vars[name] = cell.cell_contents
            except ValueError:
                pass
    self_for_super = args[0] if (cls is not None and args) else None
    c = ex.contracts.get(info.key)
    if c is not None:
        r = contracts.apply(ex, c, info, fn, bound, cls, closure_env, self_for_super)
        if r is not contracts.INLINE:
            return r
    else:
        if info.modname.startswith("goodwe") and not ex.spec_mode:
            ex.inlined.add(info.key)
    if info.is_async:
        return aio.Coro(ex, info, bound, f.__globals__, cls, closure_env, self_for_super, fn)
    saved = ex.spec_mode
    if info.modname.startswith("pyvc.spec") or info.modname.startswith("contracts"):
        ex.spec_mode += 1
    try:
        return ex.run_function(info, bound, f.__globals__, cls, closure_env, self_for_super)
    finally:
        ex.spec_mode = saved


def instantiate(ex, cls, args, kw):
    symbolic = _has_sym(args) or _has_sym(list(kw.values()))
    if issubclass(cls, enum.Enum):
        if symbolic and len(args) == 1 and isinstance(args[0], (SInt, SBool)):
            members = list(cls)
            k = ex.choose(len(members) + 1, tag=f"enum:{cls.__name__}")
            if k == len(members):
                ex.assume(mk_bool(z3.And(*[iterm(args[0]) != int(m.value) for m in members])))
                raise PyRaise(ValueError(f"not a valid {cls.__name__}"))
            ex.assume(mk_bool(iterm(args[0]) == int(members[k].value)))
            return members[k]
        if symbolic and len(args) == 1 and isinstance(args[0], SAny):
            members = list(cls)
            k = ex.choose(len(members) + 1, tag=f"enum:{cls.__name__}")
            if k == len(members):
                raise PyRaise(ValueError(f"not a valid {cls.__name__}"))
            ex.str_facts[('enumval', args[0].key)] = members[k]
            return members[k]
        try:
            return cls(*args, **kw)
        except Exception as e:
            raise PyRaise(e)
    init = getattr(cls, "__init__", None)
    info = ex.world.funcinfo(init) if init is not None else None
    in_scope = cls.__module__.startswith("goodwe") or info is not None
    if not in_scope:
        if issubclass(cls, BaseException):
            return ex.new_object(cls(*args, **kw))
        if symbolic:
            raise Unsupported(f"construction of {cls.__name__} with symbolic arguments")
        try:
            return ex.new_object(cls(*args, **kw))
        except Exception as e:
            raise PyRaise(e)
    try:
        obj = cls.__new__(cls)
    except TypeError as e:
        raise PyRaise(e)
    ex.new_object(obj)
    if info is not None:
        call_info(ex, info, getattr(obj, "__init__"), args, kw)
    elif init is object.__init__:
        if args or kw:
            raise PyRaise(TypeError(f"{cls.__name__}() takes no arguments"))
    else:
        # generated __init__ (dataclass) or builtin base: plain field stores, safe to run natively
        try:
            init(obj, *args, **kw)
        except SymLeak:
            raise
        except Exception as e:
            raise PyRaise(e)
    return obj


# ---- symbolic implementations of the specification vocabulary -----------------------------------------------------
def _symimpl(fn):
    def deco(impl):
        fn._pyvc_sym = lambda ex, *a, **k: impl(ex, *a, **k) if (_has_sym(a) or _has_sym(list(k.values()))) \
            else fn(*a, **k)
        return impl
    return deco


@_symimpl(_spec.is_bytes)
def _s_is_bytes(ex, x):
    return isinstance(x, (SBytes, bytes, bytearray))


@_symimpl(_spec.is_int)
def _s_is_int(ex, x):
    return isinstance(x, SInt) or (isinstance(x, int) and not isinstance(x, bool))


@_symimpl(_spec.be16)
def _s_be16(ex, b):
    b = SBytes.of(b)
    return mk_int(iterm(b.elem_at(ex, 0)) * 256 + iterm(b.elem_at(ex, 1)))


@_symimpl(_spec.sbe16)
def _s_sbe16(ex, b):
    b = SBytes.of(b)
    v = iterm(b.elem_at(ex, 0)) * 256 + iterm(b.elem_at(ex, 1))
    return mk_int(z3.If(v >= 32768, v - 65536, v))


@_symimpl(_spec.be)
def _s_be(ex, b, n):
    b = SBytes.of(b)
    v = z3.IntVal(0)
    for i in range(n):
        v = v * 256 + iterm(b.elem_at(ex, i))
    return mk_int(v)


@_symimpl(_spec.sbe)
def _s_sbe(ex, b, n):
    v = iterm(_s_be(ex, b, n))
    return mk_int(z3.If(v >= 256 ** n // 2, v - 256 ** n, v))


def crc_fold_term(ex, c, arr, a, b):
    """CRCF(c, arr, a, b) together with its one-step unfolding facts"""
    a, b = z3.simplify(zt(a)), z3.simplify(zt(b))
    t = CRCF(c, arr, a, b)
    key = ('crcf', t.get_id())
    if key not in ex.str_facts:
        ex.str_facts[key] = True
        last = z3.simplify(z3.Select(arr, b - 1))
        ex.byte_fact(last)
        ex.fact(z3.Implies(b <= a, t == c))
        ex.fact(z3.Implies(b > a, t == CRCSTEP(CRCF(c, arr, a, z3.simplify(b - 1)), last)))
        ex.fact(z3.Implies(b - 1 <= a, CRCF(c, arr, a, z3.simplify(b - 1)) == c))
        ex.fact(z3.And(t >= 0, t <= 0xFFFF)) if _crc_range_ok(ex, c) else None
    return t


def _crc_range_ok(ex, c):
    return True


def crcstep_term(ex, c, b):
    t = CRCSTEP(c, iterm(b))
    key = ('crcstep', t.get_id())
    if key not in ex.str_facts:
        ex.str_facts[key] = True
        ex.fact(z3.And(t >= 0, t <= 0xFFFF))
    return t


@_symimpl(_spec.CRC16)
def _s_crc16(ex, data):
    """normal form: left-to-right fold over the segments"""
    data = SBytes.of(data)
    c = z3.IntVal(0xFFFF)
    for s in data.segs:
        if isinstance(s, ESeg):
            for e in s.elems:
                c = crcstep_term(ex, c, e)
        else:
            c = crc_fold_term(ex, c, s.arr, s.off, zt(s.off) + zt(s.ln))
    return mk_int(c)


@_symimpl(_spec.crc16_step)
def _s_crcstep(ex, c, b):
    if ex.bv_mode:
        info = ex.world.funcs[("pyvc.spec", "crc16_step")]
        saved = ex.spec_mode
        ex.spec_mode += 1
        try:
            return ex.run_function(info, {"c": c, "b": b}, vars(_spec), None)
        finally:
            ex.spec_mode = saved
    return mk_int(crcstep_term(ex, iterm(c), b))


def sum_fold_term(ex, arr, a, b):
    a, b = z3.simplify(zt(a)), z3.simplify(zt(b))
    t = SUMF(arr, a, b)
    key = ('sumf', t.get_id())
    if key not in ex.str_facts:
        ex.str_facts[key] = True
        last = z3.simplify(z3.Select(arr, b - 1))
        ex.byte_fact(last)
        prev = SUMF(arr, a, z3.simplify(b - 1))
        ex.fact(z3.Implies(b <= a, t == 0))
        ex.fact(z3.Implies(b > a, t == prev + last))
        ex.fact(z3.Implies(b - 1 <= a, prev == 0))
        ex.fact(z3.And(t >= 0, z3.Implies(b > a, t <= 255 * (b - a))))
        ex.fact(z3.And(prev >= 0, z3.Implies(b - 1 > a, prev <= 255 * (b - 1 - a))))
    return t


@_symimpl(_spec.SUM)
def _s_sum(ex, data):
    data = SBytes.of(data)
    acc = z3.IntVal(0)
    for s in data.segs:
        if isinstance(s, ESeg):
            for e in s.elems:
                acc = acc + iterm(e)
        else:
            acc = acc + sum_fold_term(ex, s.arr, s.off, zt(s.off) + zt(s.ln))
    return mk_int(acc)


@_symimpl(_spec.same_bytes)
def _s_same_bytes(ex, a, b):
    """extensional equality; with an unbounded symbolic length it is stated for one arbitrary (fresh) index, which
    is what a proof of the universally quantified statement needs; it may only be *proved*, never assumed"""
    a, b = SBytes.of(a), SBytes.of(b)
    la, lb = a.length(), b.length()
    if isinstance(la, int) and isinstance(lb, int):
        r = bytes_eq(ex, a, b)
        return r if isinstance(r, bool) else mk_bool(r)
    r = None
    try:
        r = bytes_eq(ex, a, b)
    except Unsupported:
        pass
    if r is True:
        return True
    if ex.assuming:
        # assumed (callee post-condition): the universally quantified statement itself
        q = z3.Int(ex._name("q"))
        body = iterm(a.elem_at(ex, q)) == iterm(b.elem_at(ex, q))
        return mk_bool(z3.And(zt(la) == zt(lb), z3.ForAll([q], z3.Implies(z3.And(q >= 0, q < zt(la)), body))))
    j = z3.Int(ex._name("idx"))
    ex.add(z3.And(j >= 0))
    return mk_bool(z3.And(zt(la) == zt(lb),
                          z3.Implies(j < zt(la), iterm(a.elem_at(ex, j)) == iterm(b.elem_at(ex, j)))))


@_symimpl(_spec.fdiv)
def _s_fdiv(ex, a, b):
    return SFloat(F_DIV(fterm(m_float(ex, a)), fterm(b)))


@_symimpl(_spec.fmul)
def _s_fmul(ex, a, b):
    return SFloat(F_MUL(fterm(a), fterm(b)))


def _exc_is(ex, raised, cls):
    return isinstance(raised, cls)


_spec.exc_is._pyvc_sym = _exc_is


@_symimpl(_spec.unpack_f32)
def _s_unpack_f32(ex, b):
    b = SBytes.of(b)
    return SFloat(F_UNPACK(iterm(b._from_bytes_n(ex, 4, False, "big"))))


@_symimpl(_spec.round_n)
def _s_round_n(ex, x, n):
    return SFloat(F_ROUNDN(fterm(x), iterm(n)))


@_symimpl(_spec.s8)
def _s_s8(ex, x):
    t = iterm(x)
    return mk_int(z3.If(t >= 128, t - 256, t))
